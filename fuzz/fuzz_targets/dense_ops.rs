#![no_main]
use libfuzzer_sys::fuzz_target;

fuzz_target!(|data: &[u8]| {
    scverif::engine::install_panic_hook_once();
    if let Err((case, f)) = scverif::fuzz::run("dense_ops", data) {
        // strict: any failure of the property's oracle is a crash for libFuzzer
        panic!("PROPERTY-VIOLATION target=dense_ops sig={} msg={} case={}", f.sig, f.msg, case);
    }
});
