#![no_main]
use libfuzzer_sys::fuzz_target;

fuzz_target!(|data: &[u8]| {
    scverif::engine::install_panic_hook_once();
    if let Err((case, f)) = scverif::fuzz::run("dbscan", data) {
        // strict: any failure of the property's oracle is a crash for libFuzzer
        panic!("PROPERTY-VIOLATION target=dbscan sig={} msg={} case={}", f.sig, f.msg, case);
    }
});
