#!/bin/sh
# fuzz/run_fuzz.sh <ID> : coverage-guided campaign (libFuzzer via cargo-fuzz, sanitizer none, debug assertions on)
# for the properties that have a target. Fixed number of runs, fresh corpus, seed derived from VERIF_SEED.
# exit 0 = no violation (or fuzzing unavailable: "fuzz: skipped"), exit 1 = VIOLATION line printed.
ID=$1
ROOT="$(cd "$(dirname "$0")/.." && pwd)"
case "$ID" in
  C03) T=dense_ops;; C04) T=covertree;; C05) T=tree;; C12) T=bbd;; C13) T=dbscan;; C15) T=auc_sort;; C18) T=onehot;;
  *) exit 0;;
esac
cd "$ROOT/harness" || exit 0
LOG=$(mktemp)
if ! CARGO_NET_OFFLINE=true RUSTFLAGS="--cfg smartcore_verif" cargo +nightly fuzz build -s none --fuzz-dir ../fuzz $T >"$LOG" 2>&1; then
  echo "fuzz: skipped (cargo +nightly fuzz build failed; last line: $(tail -1 "$LOG"))"
  rm -f "$LOG"; exit 0
fi
rm -f "$LOG"
BIN="$ROOT/fuzz/target/x86_64-unknown-linux-gnu/release/$T"
CORP=$(mktemp -d); ART=$(mktemp -d); OUT=$(mktemp)
RUNS=${VERIF_FUZZ_RUNS:-1500000}
SEED=$(( ${VERIF_SEED:-0} + 1 ))
"$BIN" "$CORP" -runs=$RUNS -seed=$SEED -max_len=256 -len_control=0 -artifact_prefix="$ART/" -print_final_stats=1 >"$OUT" 2>&1
RC=$?
COV=$(grep -E "^#[0-9]+.*cov:" "$OUT" | tail -1 | sed 's/.*cov: \([0-9]*\).*/\1/')
EXECS=$(grep "stat::number_of_executed_units" "$OUT" | awk '{print $2}')
CORPN=$(ls "$CORP" | wc -l)
CRASH=$(ls "$ART" 2>/dev/null | head -1)
VIOL=0
if [ -n "$CRASH" ]; then
  ./target/debug/scverif fuzz-replay $T "$ART/$CRASH" && echo "fuzz: crash file did not reproduce as a property violation (ignored): $CRASH" || VIOL=1
fi
echo "fuzz: target=$T runs=${EXECS:-$RUNS} seed=$SEED coverage_edges=${COV:-?} corpus=$CORPN violations=$VIOL"
# record the campaign in the evidence file written by the proptest tier
python3 - "$ROOT/evidence/$ID.json" "$T" "${EXECS:-$RUNS}" "${COV:-0}" "$CORPN" "$VIOL" "$SEED" <<'PY'
import json, sys
p, t, runs, cov, corp, viol, seed = sys.argv[1:8]
try:
    ev = json.load(open(p))
    ev["coverage"]["fuzz_campaign"] = {"engine": "libFuzzer (cargo-fuzz, sanitizer none, debug assertions on)", "target": t, "executions": int(runs), "coverage_edges": int(cov or 0), "corpus_files": int(corp), "seed": int(seed), "violations": int(viol), "oracle": "the same check function as the proptest sub-check, called on the byte-decoded case"}
    ev["coverage"]["evaluations"] = ev["coverage"].get("evaluations", 0) + int(runs)
    ev["violations"] = ev.get("violations", 0) + int(viol)
    json.dump(ev, open(p, "w"), indent=1)
except Exception as e:
    print("fuzz: could not update evidence:", e)
PY
rm -rf "$CORP" "$ART" "$OUT"
[ $VIOL -eq 0 ] || exit 1
exit 0
