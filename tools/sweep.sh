#!/bin/sh
# tools/sweep.sh <tier> <seed...> : run every property at the given tier for each seed; print non-zero exits
TIER=$1; shift
cd /verif/harness && cargo build --bin scverif 2>/dev/null >/dev/null
for s in "$@"; do
  for p in C01 C02 C03 C04 C05 C06 C07 C08 C09 C10 C11 C12 C13 C14 C15 C16 C17 C18 C19 C20; do
    OUT=$(VERIF_SEED=$s VERIF_NOEVIDENCE=1 ./target/debug/scverif run $p $TIER 2>/dev/null)
    RC=$?
    if [ $RC -ne 0 ]; then echo "seed=$s $p exit=$RC"; echo "$OUT" | grep -A1 "VIOLATION\|INCONCLUSIVE" | cut -c1-400 | head -12; fi
  done
done
echo "sweep done"
