#!/usr/bin/env python3
"""Regenerates /verif/MANIFEST.json from the table below (run after adding a property module)."""
import json, subprocess, os
ROOT = os.path.dirname(os.path.dirname(os.path.abspath(__file__)))
hooks_commits = ["b9db240"]
# id -> (technique, level text, level note, design ref)
CHECKS = {
 "C03": ("property-based testing (proptest): generated (operation, operands, type) cases and stateful operation sequences against a row-major reference model",
         "Exploration: every BaseMatrix/BaseVector/stats/high-order method of DenseMatrix<f32/f64> and Vec<T> is compared with a textbook model on generated shapes, value classes and compatible/incompatible pairings; in-place vs copying variants bitwise; softmax probability-vector invariants; variance accuracy against a two-pass reference; stateful op sequences against the model. A universally quantified numerical/algebraic contract over a small-dimensional input space is exactly what generated search with an exact oracle decides well; no absence proof is claimed.",
         "Trusts the f64 reference model in harness/src/oracle.rs and matops.rs (no smartcore code), IEEE-754 arithmetic, and the stated tolerances (exact for structural operations, a small multiple of n*eps*sum|terms| for reductions).",
         "DESIGN.md section 7 C03"),
 "C01": ("property-based testing (proptest): constructed matrices with prescribed spectrum / structure, residual and structure oracles evaluated in f64",
         "Exploration: LU, QR, Cholesky and SVD of DenseMatrix<f32/f64> on constructed inputs of every class the quantifier names (dense with prescribed singular values, diagonal, triangular, permutation, orthogonal, low-rank+ridge, integer, zero blocks / rows / columns, graded, SPD, indefinite, exactly rank-deficient; rescaled by 1e-12..1e12); factor residuals, exact triangular / permutation structure, orthonormality, ordering of singular values, solve / least-squares / minimum-norm residuals, and rejection of indefinite input, all against an independent f64 matrix model with backward-error-shaped bounds.",
         "Trusts harness/src/oracle.rs (matrix products, Householder generator) and the calibrated constant C=512 in units of eps*max(m,n)*norm (unchanged code stays below 4).",
         "DESIGN.md section 7 C01"),
 "C18": ("property-based testing (proptest) plus exhaustive small-scope enumeration against the definition-built expected matrix; round-trip laws for the category mapper",
         "Exploration with an exhaustive part: every plain/1/2/3-category assignment of up to 5 (quick) or 6 (thorough) columns is enumerated and random larger cases (n<=40, p<=10, arbitrary u16 codes, any index order, f32/f64) are generated; the encoder output is compared exactly with a matrix built from the definition; error cases (unseen value, non-integer, negative) must return Err; the mapper's four maps are checked to be mutually inverse in first-appearance order.",
         "Trusts the 20-line definition-based reference encoder in harness/src/props/c18.rs.",
         "DESIGN.md section 7 C18"),
 "C02": ("property-based testing (proptest): constructed symmetric / general matrices with known spectrum; residual, trace and conjugate-pair oracles in f64",
         "Exploration: evd(true) on Q diag(l) Q^T inputs (repeated, zero, block-diagonal, rescaled 1e-12..1e12, f32/f64): zero imaginary parts, ordering, orthonormality, A V = V D and eigenvalues against the constructed spectrum; evd(false) on random, triangular, companion, normal, rotation-block, real-separated and badly balanced inputs: conjugate closure, trace and trace-of-square identities, real eigenvector residuals, spectrum against the construction, full A V = V D for real separated spectra.",
         "Trusts oracle.rs; bounds are 512*eps*n*norm(A) times the condition number of the constructing similarity.",
         "DESIGN.md section 7 C02"),
 "C15": ("property-based testing (proptest) against independently coded textbook definitions (pair-counting AUC, contingency-table entropies) plus metamorphic relations (argument swap, relabelling)",
         "Exploration: every metric is compared with its definition on generated label / score / target vectors at every class balance, tie pattern and scale; cluster scores additionally satisfy range, swap, relabelling and zero-conditional-entropy relations; length mismatches must panic for the seven listed metrics.",
         "Trusts the reference formulas in harness/src/props/c15.rs; 0/0 regions of the definitions are generated but only required not to panic.",
         "DESIGN.md section 7 C15"),
 "C16": ("exhaustive small-scope enumeration (all 2<=k<=n<=N) plus property-based testing with an instrumented (echo) estimator recording the rows it was fitted on",
         "Exploration with an exhaustive part: unshuffled k-fold is enumerated completely for n<=40 (quick) / 64 (thorough); shuffled k-fold, train_test_split and both cross-validation drivers are checked by validity predicates that hold for every permutation, using row identifiers carried in the data so that leakage, misplacement and detached targets are directly observable.",
         "Shuffled permutations come from the library's unseeded RNG (observed, not controlled).",
         "DESIGN.md section 7 C16"),
 "C17": ("property-based testing (proptest): closed forms in f64 and metric axioms on generated triples over the full finite magnitude range",
         "Exploration: Euclidean, Manhattan, Minkowski(1..8), Hamming and Mahalanobis distances on generated triples (f32/f64) against closed forms, with identity, symmetry, non-negativity, triangle inequality and the cross-identities Minkowski(1)=Manhattan, Minkowski(2)=Euclidean, Mahalanobis(I)=Euclidean; length mismatches must panic.",
         "Trusts the closed forms coded in harness/src/props/c17.rs and oracle::solve for the Mahalanobis reference.",
         "DESIGN.md section 7 C17"),
 "C04": ("property-based testing (proptest) plus exhaustive enumeration of all multisets of <= 5/6 points of a 3x3 lattice, against a brute-force neighbour reference and a tie-aware feasibility oracle for the estimators",
         "Exploration with an exhaustive part: both search structures are compared with brute force on generated point sets (ties, duplicates, identical, collinear, single point), for every query the k smallest distances (any tie-break accepted) and the exact radius set, entries carrying true index / distance / point, and invalid k / r returning errors; the k-NN classifier and regressor predictions must be achievable by some exact k-nearest set (water-filling feasibility for votes, subset enumeration for means) under both weightings.",
         "Reference distances come from the library's own Distance implementations (pinned separately by C17).",
         "DESIGN.md section 7 C04"),
 "C12": ("property-based testing (proptest) with the k-means++ draw under a generated seed (cfg hook) and the crate-private filtering tree driven through a cfg re-export, against exhaustive nearest-centroid search",
         "Exploration: fitted models are read back through serde (k, size, _y, centroids) and checked for finiteness, size = assignment counts, sum = n, centroid = mean of its rows, predict = nearest centroid; the BBD-tree assignment step is run on arbitrary centroid sets (data rows, coincident, far outside, exact ties) and its membership, counts, sums and distortion compared with exhaustive search.",
         "Needs hooks H1 (bbd_clustering wrapper) and H3 (schedule seed in kmeans_plus_plus); both add-only under cfg(smartcore_verif).",
         "DESIGN.md section 7 C12"),
 "C13": ("property-based testing (proptest) plus exhaustive enumeration of all subsets of <= 7 lattice points, against the textbook definition computed by brute force and union-find; differential between the two search backends",
         "Exploration with an exhaustive part: for every generated data set, eps (on, between, below and above realised distances), min_samples and both backends the labelling read through serde must satisfy the density-based definition (cores labelled, cores share a label iff density-connected, border points carry a neighbouring core's label, all else noise, labels 0..c-1, num_classes = c), be backend independent on cores and noise, and predict must be a plurality bucket (noise when no neighbour).",
         "Neighbourhoods of the reference use the library's Distance implementations (pinned by C17).",
         "DESIGN.md section 7 C13"),
 "C05": ("property-based testing (proptest): the fitted node array is read from the serde serialisation, every row is routed by the harness, and each split is compared with a brute-force search over all admissible thresholds; metamorphic power-of-two feature scaling; refit determinism",
         "Exploration: structure, routing = predict, leaf output = majority / mean of exactly the routed rows, min_samples_leaf and max_depth bounds, greedy optimality of every chosen split and completeness of every leaf (regression always; classification for distinct feature values and min_samples_leaf = 1), exact reproduction with limits off, determinism and invariance under multiplication of the features by 2^j.",
         "Trusts the brute-force split evaluation in harness/src/props/c05.rs; ties between equally good splits / majority classes are accepted.",
         "DESIGN.md section 7 C05"),
 "C06": ("property-based testing (proptest): same-seed refit differential, member trees restored from the forest's JSON and queried individually, aggregation and out-of-bag masks recomputed by the harness",
         "Exploration: identical serialisation and bitwise identical predictions for two fits with the same seed; forest prediction = plurality / mean of the restored member trees; OOB prediction aggregates exactly the trees whose stored sample mask excludes the row; labels are training labels; every classifier bootstrap sample contains every class; regressor output within the target range; trees.len() = n_trees; predict_oob without samples is an error.",
         "Trusts serde round trip of single trees (pinned by C19) to query members.",
         "DESIGN.md section 7 C06"),
 "C11": ("property-based testing (proptest): sufficient statistics recounted from the raw data and MAP scores recomputed from the model's reported statistics",
         "Exploration: for the four variants the class list, counts, priors (frequencies or user supplied, summing to one), Gaussian moments, smoothed log-probabilities with the documented denominators and their normalisation are recomputed from the data; predictions on training, recombined and perturbed rows must maximise log prior + sum of log-likelihoods computed from the reported statistics.",
         "Gaussian predict with a zero per-class variance is outside the domain and only counted.",
         "DESIGN.md section 7 C11"),
 "C07": ("property-based testing (proptest): constructed designs with prescribed conditioning, scale and shift; normal-equation / gradient residuals of the stated objective evaluated in f64; differential between solvers",
         "Exploration: OLS residual orthogonal to every column and summing to zero for both solvers, QR vs SVD agreement of fitted values, ridge gradient of the stated objective (standardised columns + unpenalised intercept, or raw columns with b = 0) vanishing at the reported coefficients for both solvers, Cholesky vs SVD agreement, predict = X w + b on fresh rows, n <= p rejected by ridge.",
         "Trusts oracle.rs (one-sided Jacobi singular values, matrix products); OLS assertions are made when the measured cond([X 1]) <= 1e8.",
         "DESIGN.md section 7 C07"),
 "C08": ("property-based testing (proptest) against an independent coordinate-descent optimum of the stated objective; metamorphic target shift; error-reporting cases",
         "Exploration: Lasso and elastic net objective values within 10*tol (relative) of the coordinate-descent optimum for alpha from almost-least-squares to beyond alpha_max, l1_ratio in (0,1], large target means, both normalisations; intercept identity; predict = X w + b; shifting every target moves only the intercept; invalid Lasso settings (alpha<0, tol<=0, max_iter=0, n<=p, length mismatch, constant column) return Err and do not panic or hang (watchdog).",
         "Reference optimum by cyclic coordinate descent in harness/src/props/c08.rs; a hang is reported as inconclusive (exit 2), never as a violation.",
         "DESIGN.md section 7 C08"),
 "C09": ("property-based testing (proptest): independent log-sum-exp objective and gradient in f64; L-BFGS driven through a cfg re-export on generated SPD quadratics, monotonicity observed by re-running the deterministic optimiser with max_iter = 1..20",
         "Exploration: gradient of the penalised negative log-likelihood at the fitted coefficients relative to the gradient at zero (alpha > 0), final objective <= starting objective (alpha >= 0), predicted labels = arg-max / sign of the fitted linear scores and members of the label set; L-BFGS on strictly convex quadratics (dimension 1..12, cond <= 1e4): gradient reduction, reported value, no increase of the objective along the iterates.",
         "Needs hook H1 (re-export of LBFGS / Backtracking). One known finding (iteration budget on badly scaled features) is keyed on a replica run of the same optimiser.",
         "DESIGN.md section 7 C09"),
 "C10": ("property-based testing (proptest) over data, parameters and the trainer's visiting order (generated schedule seed through a cfg hook), with the model read back through serde and independent kernel formulas; KKT residuals recomputed in f64",
         "Exploration: SVC dual coefficients within [0, C] in the direction of their sample's class and summing to zero, support vectors are training rows, decision_function = b + sum w_i K(sv_i, x) with our own kernel formulas, predict = the larger class iff the decision value is positive, for every generated visiting order (tiny sets are refitted under 60 / 400 orders); SVR box and equality constraints, epsilon-insensitive KKT conditions at every training point within tol, prediction = kernel expansion; kernel closed forms, exact symmetry, PSD Gram matrices for linear and RBF.",
         "Needs hook H2 (schedule seed in SVC's permutation). Schedules are explored by sampling seeds; exhaustive only in probability, as the property says.",
         "DESIGN.md section 7 C10"),
 "C14": ("property-based testing (proptest): orthonormality, decorrelation, ordering and Ky-Fan optimality against an independent Jacobi eigen / singular value reference; metamorphic stacking relation; affine map recomputed from the model's serialised mean and projection",
         "Exploration: PCA (covariance and correlation, SVD path n>p and EVD path n<=p, large means, exactly rank-deficient data, every k) yields orthonormal components, zero-mean uncorrelated transformed columns with non-increasing variances whose sum equals the k largest eigenvalues of our covariance / correlation matrix; truncated SVD yields orthonormal components capturing the k largest squared singular values and rejects k = p; both transforms are row-wise affine / linear maps (stacking, explicit recomputation).",
         "Trusts oracle.rs (Jacobi eigen-solver, one-sided Jacobi singular values).",
         "DESIGN.md section 7 C14"),
}
ALL = ["C%02d" % i for i in range(1, 21)]
NA_REASON = {}
checks = []
for pid in ALL:
    if pid not in CHECKS:
        continue
    tech, text, note, ref = CHECKS[pid]
    checks.append({
        "property_id": pid,
        "quick_cmd": "./check %s quick" % pid,
        "thorough_cmd": "./check %s thorough" % pid,
        "evidence_file": "/verif/evidence/%s.json" % pid,
        "replay_cmd_template": "./check --replay {path}",
        "engine": "scverif",
        "level_claimed": {"category": "exploration", "text": text, "design_ref": ref},
        "level_note": note,
        "technique": tech,
    })
na = [{"property_id": p, "reason": NA_REASON.get(p, "check not implemented yet in this round (work in progress; the technique applies, see DESIGN.md section 7)")} for p in ALL if p not in CHECKS]
m = {
 "version": 1,
 "setup_cmd": "cd /verif/harness && CARGO_NET_OFFLINE=true cargo build --bin scverif",
 "hooks": {
   "guard": "--cfg smartcore_verif",
   "enable": "rustflags = [\"--cfg\", \"smartcore_verif\"] in /verif/harness/.cargo/config.toml (applies to the path dependency /repo when built from the harness)",
   "baseline_off_cmd": "cd /repo && cargo test --workspace --no-fail-fast --offline",
   "source_commits": hooks_commits,
   "add_only": True,
 },
 "engines": [{"name": "scverif", "path": "/verif/harness", "serves_properties": [c["property_id"] for c in checks],
              "kind_free_text": "Rust crate using proptest 1.11 as a library: seeded generators, per-case oracle, shrinking to a JSON replay file, known-finding matching, evidence writer; cargo-fuzz targets in /verif/fuzz reuse the same oracles"}],
 "checks": checks,
 "not_applicable": na,
 "notes": "VERIF_SEED selects the proptest seed (default 0). Exit 2 = inconclusive (build failure / watchdog / health check), never a violation. known_findings.json lists genuine defects (known / fixed).",
}
json.dump(m, open(os.path.join(ROOT, "MANIFEST.json"), "w"), indent=1)
print("wrote MANIFEST.json with", len(checks), "checks,", len(na), "not_applicable")
