#!/usr/bin/env python3
"""kf.py fixed|known <replay.json> [--commit C] --what TEXT   : append an entry to known_findings.json (developer tool; never used by checks)"""
import json, sys, os
ROOT = os.path.dirname(os.path.dirname(os.path.abspath(__file__)))
status, path = sys.argv[1], sys.argv[2]
args = sys.argv[3:]
commit = args[args.index("--commit") + 1] if "--commit" in args else None
what = args[args.index("--what") + 1]
r = json.load(open(path))
kfp = os.path.join(ROOT, "known_findings.json")
kf = json.load(open(kfp))
e = {"status": status, "property": r["property"], "sub": r["sub"], "signature": r["sig"]}
if status == "fixed":
    e["commit"] = commit
    e["line"] = "fixed: property=%s %s %s" % (r["property"], commit, what)
e["what"] = what
e["case"] = r["case"]
kf["findings"].append(e)
json.dump(kf, open(kfp, "w"), indent=1)
print("added", status, r["property"], r["sig"])
