#!/bin/sh
# tools/try_mutant_fuzz.sh <seeded-dir> <ID> [runs] : apply the patch, run only the fuzz campaign of property <ID>, undo
D=$1; ID=$2; RUNS=${3:-400000}
if [ -n "$(git -C /repo status --porcelain -- src)" ]; then echo "/repo is dirty"; exit 3; fi
git -C /repo apply "$D/patch.diff" || exit 3
cd /verif/harness && cargo build --bin scverif >/dev/null 2>&1
mkdir -p /verif/evidence
VERIF_FUZZ_RUNS=$RUNS /verif/fuzz/run_fuzz.sh $ID 2>&1 | grep -E "^fuzz:|VIOLATION|sig=" | cut -c1-300
git -C /repo checkout -- .
git -C /verif checkout -- evidence 2>/dev/null
rm -rf /verif/replays/found
