#!/bin/sh
# tools/try_mutant.sh <seeded-dir> [tier] [PROP...]  : apply <dir>/patch.diff to /repo, run the checks, undo.
# Prints one line per property: exit code and the first violation signature. Default: the property named in meta.json.
D=$1; TIER=${2:-quick}; shift; shift 2>/dev/null
[ -f "$D/patch.diff" ] || { echo "no patch in $D"; exit 3; }
if [ -n "$(git -C /repo status --porcelain -- src)" ]; then echo "/repo is dirty"; exit 3; fi
PROPS="$@"
[ -z "$PROPS" ] && PROPS=$(python3 -c "import json;print(json.load(open('$D/meta.json'))['property'])")
git -C /repo apply "$D/patch.diff" || { echo "patch does not apply"; exit 3; }
for P in $PROPS; do
  OUT=$(cd /verif && VERIF_NOEVIDENCE=1 VERIF_SEED=${VERIF_SEED:-0} ./check $P $TIER 2>&1)
  RC=$?
  SIG=$(echo "$OUT" | grep "sig=" | head -1 | sed 's/.*sig=\([^ ]*\).*/\1/')
  echo "$(basename $D) $P $TIER exit=$RC ${SIG}"
done
git -C /repo checkout -- .
rm -rf /verif/replays/found
