#!/bin/sh
# tools/validate_mutant.sh <mutant-dir-with-patch.diff-and-demo> : independent confirmation in a fresh scratch worktree.
# demo = <dir>/mutant_demo.rs (integration test). Prints DEMO_CLEAN / SUITE_MUT / SUITE_MUT_FEATURES / DEMO_MUT results.
M=$1
W=/tmp/val_$$
git -C /repo worktree add -q $W HEAD || exit 3
export CARGO_NET_OFFLINE=true CARGO_TARGET_DIR=$W/target
mkdir -p $W/tests
DEMO=$(ls $M/*.rs | head -1)
cp $DEMO $W/tests/mutant_demo.rs
cd $W
FEAT='--features serde,ndarray-bindings,nalgebra-bindings'
cargo test --offline $FEAT --test mutant_demo >$W/demo_clean.log 2>&1; echo "DEMO_CLEAN exit=$? (want 0)"
git apply $M/patch.diff || { echo "PATCH DOES NOT APPLY"; cd /; git -C /repo worktree remove --force $W; exit 3; }
cargo test --offline --lib >$W/suite.log 2>&1; echo "SUITE_MUT exit=$? $(grep '^test result' $W/suite.log | head -1) (want 0)"
cargo test --offline $FEAT --lib >$W/suitef.log 2>&1; echo "SUITE_MUT_FEATURES exit=$? $(grep '^test result' $W/suitef.log | head -1) (want 0)"
cargo test --offline $FEAT --test mutant_demo >$W/demo_mut.log 2>&1; echo "DEMO_MUT exit=$? (want != 0)"
grep -E "^test .* FAILED|panicked" $W/demo_mut.log | head -4
grep -E "FAILED|failed" $W/suite.log $W/suitef.log | head -5
cd /
git -C /repo worktree remove --force $W
