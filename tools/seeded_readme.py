#!/usr/bin/env python3
import json,os,glob
rows=[]; n=0; missed=[]; undetected=[]
for d in sorted(glob.glob('/verif/seeded/*/meta.json')):
    m=json.load(open(d)); name=os.path.basename(os.path.dirname(d)); n+=1
    det=m.get('detected_by') or {'check':'NOT DETECTED','signature':''}
    if det['check']=='NOT DETECTED': undetected.append(name)
    elif 'missed before' in det['check'] or 'strengthening' in m: missed.append(name)
    rows.append("| `%s` | %s | %s | %s `%s`%s |"%(name,m['property'],m['needs_to_manifest'].replace('|','/'),det['check'],det['signature'],('; '+m['also_detected_by']) if 'also_detected_by' in m else ''))
open('/verif/seeded/README.md','w').write('''# Seeded changes

Each directory holds a change to titoeb/smartcore-dev that breaks one property while compiling and passing the
existing test suites, written by an independent sub-agent (it saw only the property text and a scratch worktree,
nothing from /verif; second-round agents were additionally told which idea had already been used, so that they
pick a different mechanism), and confirmed by `tools/validate_mutant.sh` in a fresh worktree: `patch.diff`, the
demonstration (`mutant_demo.rs`, an integration test that passes on the clean tree and fails with the patch),
the agent's `AGENT_README.md`, and `meta.json`. `tools/try_mutant.sh <dir> [tier] [PROP..]` applies the patch to
/repo, runs the checks and undoes it. None of these changes is ever committed in /repo.

%d changes. %d were missed by the quick tier as first built and led to stronger checks (%s); those are caught now. Not detected: %s (reason in the table).

| change | property | needs, in order to manifest | caught by |
|---|---|---|---|
'''%(n,len(missed),', '.join('`%s`'%x for x in missed),', '.join('`%s`'%x for x in undetected) or 'none')+'\n'.join(rows)+'\n')
print(n,'changes;',len(missed),'led to stronger checks;',len(undetected),'not detected')
