#!/bin/sh
# tools/process_round.sh <prefix> <ID> <name> <needs> : validate /tmp/mut/<prefix>_<ID>/MUTANT, keep it as seeded/<name>, try the check
PFX=$1; ID=$2; NAME=$3; NEEDS=$4
M=/tmp/mut/${PFX}_${ID}/MUTANT
V=$(/verif/tools/validate_mutant.sh $M 2>&1)
echo "$V" | grep -E "DEMO_CLEAN|SUITE_MUT|DEMO_MUT|PATCH|suite.*FAILED" | tr '\n' ';'; echo
OK=1
echo "$V" | grep -q "DEMO_CLEAN exit=0" || OK=0
echo "$V" | grep -q "DEMO_MUT exit=0" && OK=0
echo "$V" | grep -q "PATCH DOES NOT APPLY" && OK=0
if [ $OK -eq 1 ]; then
  python3 /verif/tools/keep_mutant.py $M "$NAME" $ID "$NEEDS" >/dev/null
  /verif/tools/try_mutant.sh /verif/seeded/$NAME quick
else
  echo "NOT KEPT: $ID $NAME"
fi
