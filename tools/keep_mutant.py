#!/usr/bin/env python3
"""keep_mutant.py <MUTANT dir> <name> <property> <needs text> : store a confirmed seeded change under /verif/seeded/<name>/"""
import sys, os, shutil, json, glob
src, name, prop, needs = sys.argv[1:5]
dst = os.path.join('/verif/seeded', name)
os.makedirs(dst, exist_ok=True)
shutil.copy(os.path.join(src, 'patch.diff'), dst)
for f in glob.glob(os.path.join(src, '*.rs')):
    shutil.copy(f, dst)
if os.path.exists(os.path.join(src, 'README.md')):
    shutil.copy(os.path.join(src, 'README.md'), os.path.join(dst, 'AGENT_README.md'))
meta = {"property": prop, "breaks": "see AGENT_README.md", "needs_to_manifest": needs,
        "confirmed_by": "tools/validate_mutant.sh in a fresh scratch worktree of /repo HEAD: demo passes on the clean tree, both test suites (default features; serde+ndarray+nalgebra) pass with the patch, demo fails with the patch",
        "origin": "written by an independent sub-agent given only the property text and a scratch worktree",
        "detected_by": None}
json.dump(meta, open(os.path.join(dst, 'meta.json'), 'w'), indent=1)
print("kept", dst)
