use scverif::oracle::Mat;
use scverif::matops::*;
use smartcore::linalg::svd::SVDDecomposableMatrix;
fn main(){
    let p = std::env::args().nth(1).unwrap();
    let mul: f64 = std::env::args().nth(2).map(|s| s.parse().unwrap()).unwrap_or(1.0);
    let v: serde_json::Value = serde_json::from_str(&std::fs::read_to_string(p).unwrap()).unwrap();
    let a: Mat = serde_json::from_value(v["case"]["a"].clone()).unwrap();
    let a = a.scale(mul);
    let m32 = <DenseB as Build<f32>>::build(&a);
    let s = m32.svd().unwrap();
    println!("f32 s = {:?}", s.s);
    let m64 = <DenseB as Build<f64>>::build(&a);
    let s = m64.svd().unwrap();
    println!("f64 s = {:?}", s.s);
}
