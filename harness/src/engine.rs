//! Property-based testing engine: proptest driver, case accounting, shrinking to a replay
//! file, known-finding matching, watchdog, evidence writer.
use proptest::strategy::{BoxedStrategy, Strategy};
use proptest::test_runner::{Config, RngAlgorithm, TestCaseError, TestError, TestRng, TestRunner};
use serde::de::DeserializeOwned;
use serde::Serialize;
use serde_json::{json, Value};
use std::cell::RefCell;
use std::collections::hash_map::DefaultHasher;
use std::collections::{BTreeMap, BTreeSet, HashSet};
use std::fmt::Debug;
use std::hash::{Hash, Hasher};
use std::panic::{catch_unwind, AssertUnwindSafe};
use std::path::{Path, PathBuf};
use std::sync::atomic::{AtomicBool, AtomicU64, Ordering};
use std::sync::{Arc, Mutex};
use std::time::Instant;

#[derive(Clone, Copy, Debug, PartialEq, Eq)]
pub enum Tier {
    Quick,
    Thorough,
}

impl Tier {
    pub fn name(self) -> &'static str {
        match self {
            Tier::Quick => "quick",
            Tier::Thorough => "thorough",
        }
    }
    /// pick by tier
    pub fn pick<T>(self, quick: T, thorough: T) -> T {
        match self {
            Tier::Quick => quick,
            Tier::Thorough => thorough,
        }
    }
}

/// A failed check: `sig` is a short root-cause key (matched against known findings),
/// `msg` the human-readable explanation.
#[derive(Clone, Debug)]
pub struct Fail {
    pub sig: String,
    pub msg: String,
}

pub fn fail<T>(sig: impl Into<String>, msg: impl Into<String>) -> Result<T, Fail> {
    Err(Fail {
        sig: sig.into(),
        msg: msg.into(),
    })
}

#[macro_export]
macro_rules! ensure {
    ($cond:expr, $sig:expr, $($arg:tt)*) => {
        if !($cond) {
            return Err($crate::engine::Fail { sig: ($sig).to_string(), msg: format!($($arg)*) });
        }
    };
}

/// Per-case context: classification labels, non-triviality, observed/bound ratios.
#[derive(Default)]
pub struct Ctx {
    pub labels: Vec<String>,
    pub nontrivial: bool,
    pub ratios: Vec<(String, f64)>,
    pub counters: Vec<(String, u64)>,
}

impl Ctx {
    pub fn label(&mut self, l: impl Into<String>) {
        self.labels.push(l.into());
    }
    pub fn label_if(&mut self, c: bool, l: &str) {
        if c {
            self.labels.push(l.to_string());
        }
    }
    pub fn nontrivial(&mut self, b: bool) {
        self.nontrivial = b;
    }
    pub fn count(&mut self, name: &str, n: u64) {
        self.counters.push((name.to_string(), n));
    }
    /// Records observed/bound and fails when observed exceeds bound (or is not finite).
    pub fn bound(&mut self, name: &str, observed: f64, bound: f64) -> Result<(), Fail> {
        let ratio = if bound > 0.0 {
            observed / bound
        } else if observed == 0.0 {
            0.0
        } else {
            f64::INFINITY
        };
        if ratio.is_finite() {
            self.ratios.push((name.to_string(), ratio));
        }
        if !(observed <= bound) {
            return fail(
                name,
                format!("{}: observed {:e} exceeds bound {:e}", name, observed, bound),
            );
        }
        Ok(())
    }
}

thread_local! {
    static LAST_PANIC: RefCell<String> = RefCell::new(String::new());
}

/// For fuzz targets: keep the default (aborting, printing) hook but remember the message for `catch`.
pub fn install_panic_hook_once() {
    use std::sync::Once;
    static ONCE: Once = Once::new();
    ONCE.call_once(|| {
        let default = std::panic::take_hook();
        std::panic::set_hook(Box::new(move |info| {
            let msg = if let Some(s) = info.payload().downcast_ref::<&str>() {
                s.to_string()
            } else if let Some(s) = info.payload().downcast_ref::<String>() {
                s.clone()
            } else {
                "<non-string panic>".to_string()
            };
            LAST_PANIC.with(|p| *p.borrow_mut() = msg.clone());
            // only the property-violation panic raised by the target itself is reported loudly
            if msg.starts_with("PROPERTY-VIOLATION") {
                default(info);
            }
        }));
    });
}

pub fn install_panic_hook() {
    std::panic::set_hook(Box::new(|info| {
        let msg = if let Some(s) = info.payload().downcast_ref::<&str>() {
            s.to_string()
        } else if let Some(s) = info.payload().downcast_ref::<String>() {
            s.clone()
        } else {
            "<non-string panic>".to_string()
        };
        let loc = info
            .location()
            .map(|l| format!("{}:{}", l.file(), l.line()))
            .unwrap_or_default();
        LAST_PANIC.with(|p| *p.borrow_mut() = format!("{} @ {}", msg, loc));
    }));
}

/// Runs `f`, turning a panic into `Err(message @ location)`.
pub fn catch<T>(f: impl FnOnce() -> T) -> Result<T, String> {
    match catch_unwind(AssertUnwindSafe(f)) {
        Ok(v) => Ok(v),
        Err(_) => Err(LAST_PANIC.with(|p| p.borrow().clone())),
    }
}

/// Library call that must not panic: a panic becomes a violation with signature `<what>/panic`.
pub fn no_panic<T>(what: &str, f: impl FnOnce() -> T) -> Result<T, Fail> {
    catch(f).map_err(|m| Fail {
        sig: format!("{}/panic", what),
        msg: format!("{} panicked: {}", what, m),
    })
}

/// Library call that must panic (documented rejection).
pub fn must_panic<T>(what: &str, f: impl FnOnce() -> T) -> Result<(), Fail> {
    match catch(f) {
        Ok(_) => fail(
            format!("{}/accepted", what),
            format!("{} was accepted but must be rejected", what),
        ),
        Err(_) => Ok(()),
    }
}

pub type CheckFn<C> = fn(&C, &mut Ctx) -> Result<(), Fail>;
pub type StratFn<C> = fn(Tier) -> BoxedStrategy<C>;
pub type EnumFn<C> = fn(Tier) -> Box<dyn Iterator<Item = C>>;

/// One sub-check of a property: a generator, a case count per tier and an executable oracle.
pub struct Sub<C> {
    pub name: &'static str,
    pub cases: (u32, u32),
    pub strategy: StratFn<C>,
    pub check: CheckFn<C>,
    /// optional exhaustive enumeration, run in addition to the random cases
    pub enumerate: Option<EnumFn<C>>,
}

pub trait CaseT: Debug + Clone + Serialize + DeserializeOwned + Send + 'static {}
impl<T: Debug + Clone + Serialize + DeserializeOwned + Send + 'static> CaseT for T {}

#[derive(Default, Clone)]
pub struct SubReport {
    pub evaluations: u64,
    pub nontrivial_hashes: HashSet<u64>,
    pub all_hashes: HashSet<u64>,
    pub excluded_known: u64,
    pub classes: BTreeMap<String, u64>,
    pub counters: BTreeMap<String, u64>,
    pub max_ratio: BTreeMap<String, f64>,
    pub samples: Vec<Value>,
    pub violations: Vec<Violation>,
    pub exhaustive_done: bool,
    pub enumerated: u64,
}

#[derive(Clone, Debug)]
pub struct Violation {
    pub sub: String,
    pub sig: String,
    pub msg: String,
    pub case: Value,
}

impl SubReport {
    fn merge(&mut self, o: SubReport) {
        self.evaluations += o.evaluations;
        self.nontrivial_hashes.extend(o.nontrivial_hashes);
        self.all_hashes.extend(o.all_hashes);
        self.excluded_known += o.excluded_known;
        for (k, v) in o.classes {
            *self.classes.entry(k).or_insert(0) += v;
        }
        for (k, v) in o.counters {
            *self.counters.entry(k).or_insert(0) += v;
        }
        for (k, v) in o.max_ratio {
            let e = self.max_ratio.entry(k).or_insert(0.0);
            if v > *e {
                *e = v;
            }
        }
        for s in o.samples {
            if self.samples.len() < 4 {
                self.samples.push(s);
            }
        }
        self.violations.extend(o.violations);
        self.exhaustive_done |= o.exhaustive_done;
        self.enumerated += o.enumerated;
    }
}

pub struct RunEnv {
    pub quick_mult: u32,
    pub property: String,
    pub tier: Tier,
    pub seed: u64,
    pub tolerated: BTreeSet<String>,
    pub stop: BTreeMap<String, AtomicBool>,
    pub slots: Vec<Slot>,
    pub t0: Instant,
}

/// what a worker is doing right now (for the watchdog)
pub struct Slot {
    pub started_ms: AtomicU64,
    pub what: Mutex<(String, Vec<u8>)>,
}

pub trait DynSub: Sync + Send {
    fn name(&self) -> &'static str;
    fn njobs(&self, tier: Tier, quick_mult: u32) -> usize;
    fn run_job(&self, env: &RunEnv, job: usize, njobs: usize, slot: usize) -> SubReport;
    fn replay(&self, case: &Value) -> Result<Result<(), Fail>, String>;
    fn bytes_to_json(&self, b: &[u8]) -> Value;
}

fn hash_bytes(b: &[u8]) -> u64 {
    let mut h = DefaultHasher::new();
    b.hash(&mut h);
    h.finish()
}

fn splitmix(mut x: u64) -> u64 {
    x = x.wrapping_add(0x9E3779B97F4A7C15);
    let mut z = x;
    z = (z ^ (z >> 30)).wrapping_mul(0xBF58476D1CE4E5B9);
    z = (z ^ (z >> 27)).wrapping_mul(0x94D049BB133111EB);
    z ^ (z >> 31)
}

fn seed_bytes(seed: u64, prop: &str, sub: &str, job: usize) -> [u8; 32] {
    let mut h = DefaultHasher::new();
    (prop, sub, job).hash(&mut h);
    let mut s = splitmix(seed ^ h.finish());
    let mut out = [0u8; 32];
    for i in 0..4 {
        s = splitmix(s);
        out[i * 8..i * 8 + 8].copy_from_slice(&s.to_le_bytes());
    }
    out
}

fn sample_value<C: Serialize>(c: &C) -> Value {
    let v = serde_json::to_value(c).unwrap_or(Value::Null);
    let s = v.to_string();
    if s.len() > 6000 {
        json!({ "truncated_case_json": s[..6000].to_string(), "json_len": s.len() })
    } else {
        v
    }
}

fn run_one<C: CaseT>(check: CheckFn<C>, case: &C) -> (Ctx, Result<(), Fail>) {
    let mut ctx = Ctx::default();
    let r = match catch_unwind(AssertUnwindSafe(|| check(case, &mut ctx))) {
        Ok(r) => r,
        Err(_) => {
            let m = LAST_PANIC.with(|p| p.borrow().clone());
            Err(Fail {
                sig: "uncaught-panic".to_string(),
                msg: format!("panic outside an expected-rejection context: {}", m),
            })
        }
    };
    (ctx, r)
}

impl<C: CaseT> Sub<C> {
    fn process(
        &self,
        env: &RunEnv,
        slot: usize,
        rep: &mut SubReport,
        case: &C,
    ) -> Result<(), Fail> {
        let bytes = bincode::serialize(case).unwrap_or_default();
        {
            let s = &env.slots[slot];
            let mut w = s.what.lock().unwrap();
            w.0 = self.name.to_string();
            w.1 = bytes.clone();
            s.started_ms
                .store(env.t0.elapsed().as_millis() as u64 + 1, Ordering::SeqCst);
        }
        let (ctx, r) = run_one(self.check, case);
        env.slots[slot].started_ms.store(0, Ordering::SeqCst);
        let h = hash_bytes(&bytes);
        rep.evaluations += 1;
        rep.all_hashes.insert(h);
        if ctx.nontrivial {
            let newly = rep.nontrivial_hashes.insert(h);
            if newly && (rep.samples.is_empty() || (rep.samples.len() < 3 && rep.evaluations % 97 == 0)) {
                rep.samples.push(sample_value(case));
            }
        }
        for l in ctx.labels {
            *rep.classes.entry(l).or_insert(0) += 1;
        }
        for (k, n) in ctx.counters {
            *rep.counters.entry(k).or_insert(0) += n;
        }
        for (k, v) in ctx.ratios {
            let e = rep.max_ratio.entry(k).or_insert(0.0);
            if v > *e {
                *e = v;
            }
        }
        match r {
            Ok(()) => Ok(()),
            Err(f) => {
                if env.tolerated.contains(&f.sig) {
                    rep.excluded_known += 1;
                    Ok(())
                } else {
                    Err(f)
                }
            }
        }
    }
}

impl<C: CaseT> DynSub for Sub<C> {
    fn name(&self) -> &'static str {
        self.name
    }
    fn njobs(&self, tier: Tier, quick_mult: u32) -> usize {
        let n = tier.pick(self.cases.0 * quick_mult, self.cases.1.max(self.cases.0 * quick_mult * 8)) as usize;
        let by_size = (n + 49) / 50;
        let mut j = by_size.clamp(1, 16);
        if self.enumerate.is_some() {
            j += 1;
        }
        j
    }
    fn run_job(&self, env: &RunEnv, job: usize, njobs: usize, slot: usize) -> SubReport {
        let mut rep = SubReport::default();
        let tier = env.tier;
        // the last job is the exhaustive enumeration when there is one
        if self.enumerate.is_some() && job == njobs - 1 {
            let it = (self.enumerate.unwrap())(tier);
            let mut complete = true;
            for case in it {
                if env.stop[self.name].load(Ordering::Relaxed) {
                    complete = false;
                    break;
                }
                rep.enumerated += 1;
                if let Err(f) = self.process(env, slot, &mut rep, &case) {
                    rep.violations.push(Violation {
                        sub: self.name.to_string(),
                        sig: f.sig,
                        msg: f.msg,
                        case: serde_json::to_value(&case).unwrap_or(Value::Null),
                    });
                    env.stop[self.name].store(true, Ordering::Relaxed);
                    complete = false;
                    break;
                }
            }
            rep.exhaustive_done = complete;
            return rep;
        }
        let rjobs = if self.enumerate.is_some() { njobs - 1 } else { njobs };
        let total = tier.pick(self.cases.0 * env.quick_mult, self.cases.1.max(self.cases.0 * env.quick_mult * 8)) as usize;
        let mine = total / rjobs + if job < total % rjobs { 1 } else { 0 };
        if mine == 0 {
            return rep;
        }
        let config = Config {
            cases: mine as u32,
            failure_persistence: None,
            max_shrink_iters: 600,
            max_global_rejects: 100_000,
            max_local_rejects: 100_000,
            source_file: None,
            verbose: 0,
            ..Config::default()
        };
        let rng = TestRng::from_seed(
            RngAlgorithm::ChaCha,
            &seed_bytes(env.seed, &env.property, self.name, job),
        );
        let mut runner = TestRunner::new_with_rng(config, rng);
        let strategy = (self.strategy)(tier);
        let failed = std::cell::Cell::new(false);
        let rep_cell = RefCell::new(&mut rep);
        let result = runner.run(&strategy, |case| {
            if failed.get() {
                // shrinking phase: evaluate without accounting
                let (_, r) = run_one(self.check, &case);
                return match r {
                    Err(f) if !env.tolerated.contains(&f.sig) => {
                        Err(TestCaseError::fail(f.msg))
                    }
                    _ => Ok(()),
                };
            }
            if env.stop[self.name].load(Ordering::Relaxed) {
                return Ok(());
            }
            let mut rep = rep_cell.borrow_mut();
            match self.process(env, slot, &mut rep, &case) {
                Ok(()) => Ok(()),
                Err(f) => {
                    failed.set(true);
                    Err(TestCaseError::fail(f.msg))
                }
            }
        });
        drop(rep_cell);
        match result {
            Ok(()) => {}
            Err(TestError::Fail(_, minimal)) => {
                let (_, r) = run_one(self.check, &minimal);
                let f = r.err().unwrap_or(Fail {
                    sig: "flaky".into(),
                    msg: "minimal case did not fail on re-execution".into(),
                });
                rep.violations.push(Violation {
                    sub: self.name.to_string(),
                    sig: f.sig,
                    msg: f.msg,
                    case: serde_json::to_value(&minimal).unwrap_or(Value::Null),
                });
                env.stop[self.name].store(true, Ordering::Relaxed);
            }
            Err(TestError::Abort(reason)) => {
                rep.violations.push(Violation {
                    sub: self.name.to_string(),
                    sig: "generator-abort".into(),
                    msg: format!("proptest aborted: {}", reason),
                    case: Value::Null,
                });
            }
        }
        rep
    }
    fn replay(&self, case: &Value) -> Result<Result<(), Fail>, String> {
        let c: C = serde_json::from_value(case.clone()).map_err(|e| e.to_string())?;
        let (_, r) = run_one(self.check, &c);
        Ok(r)
    }
    fn bytes_to_json(&self, b: &[u8]) -> Value {
        match bincode::deserialize::<C>(b) {
            Ok(c) => serde_json::to_value(&c).unwrap_or(Value::Null),
            Err(_) => Value::Null,
        }
    }
}

pub fn sub<C: CaseT>(
    name: &'static str,
    cases: (u32, u32),
    strategy: StratFn<C>,
    check: CheckFn<C>,
) -> Box<dyn DynSub> {
    Box::new(Sub {
        name,
        cases,
        strategy,
        check,
        enumerate: None,
    })
}

pub fn sub_enum<C: CaseT>(
    name: &'static str,
    cases: (u32, u32),
    strategy: StratFn<C>,
    check: CheckFn<C>,
    enumerate: EnumFn<C>,
) -> Box<dyn DynSub> {
    Box::new(Sub {
        name,
        cases,
        strategy,
        check,
        enumerate: Some(enumerate),
    })
}

pub struct Property {
    pub id: &'static str,
    /// the quick tier runs `quick_mult` times the per-sub-check base count
    pub quick_mult: u32,
    pub rule: &'static str,
    pub assumptions: Vec<String>,
    pub subs: Vec<Box<dyn DynSub>>,
}

fn verif_root() -> PathBuf {
    std::env::var("VERIF_ROOT")
        .map(PathBuf::from)
        .unwrap_or_else(|_| PathBuf::from("/verif"))
}

fn load_known(root: &Path, prop: &str) -> Vec<Value> {
    let p = root.join("known_findings.json");
    let Ok(s) = std::fs::read_to_string(&p) else {
        return vec![];
    };
    let Ok(v) = serde_json::from_str::<Value>(&s) else {
        eprintln!("warning: known_findings.json does not parse");
        return vec![];
    };
    v["findings"]
        .as_array()
        .cloned()
        .unwrap_or_default()
        .into_iter()
        .filter(|e| e["property"] == prop)
        .collect()
}

fn write_replay(root: &Path, prop: &str, v: &Violation, seed: u64) -> PathBuf {
    let dir = root.join("replays").join("found");
    let _ = std::fs::create_dir_all(&dir);
    let body = json!({
        "property": prop, "sub": v.sub, "sig": v.sig, "msg": v.msg, "seed": seed, "case": v.case,
    });
    let s = serde_json::to_string_pretty(&body).unwrap();
    let h = hash_bytes(s.as_bytes());
    let path = dir.join(format!("{}-{}-{:016x}.json", prop, v.sub, h));
    let _ = std::fs::write(&path, s);
    path
}

/// Runs a property at a tier. Returns the process exit code.
pub fn run_property(prop: Property, tier: Tier, seed: u64) -> i32 {
    let root = verif_root();
    let t0 = Instant::now();
    let nthreads: usize = std::env::var("VERIF_THREADS")
        .ok()
        .and_then(|s| s.parse().ok())
        .unwrap_or(16);
    let mut violations: Vec<(Violation, PathBuf)> = vec![];
    let mut tolerated = BTreeSet::new();
    let mut known_lines = vec![];
    let mut replayed = 0u64;

    // ---- replay tier: known findings, fixed findings, regression corpus
    for e in load_known(&root, prop.id) {
        let subname = e["sub"].as_str().unwrap_or("");
        let status = e["status"].as_str().unwrap_or("");
        let sig = e["signature"].as_str().unwrap_or("").to_string();
        let Some(s) = prop.subs.iter().find(|s| s.name() == subname) else {
            eprintln!("warning: known finding for unknown sub-check {}", subname);
            continue;
        };
        replayed += 1;
        match s.replay(&e["case"]) {
            Err(err) => eprintln!("warning: known-finding case does not decode: {}", err),
            Ok(Ok(())) => { /* no longer failing: nothing tolerated, nothing printed */ }
            Ok(Err(f)) => {
                if status == "known" && f.sig == sig {
                    known_lines.push(format!(
                        "KNOWN-FINDING: property={} {}",
                        prop.id,
                        e["what"].as_str().unwrap_or(&f.msg)
                    ));
                    tolerated.insert(sig);
                } else {
                    let v = Violation {
                        sub: subname.to_string(),
                        sig: f.sig,
                        msg: format!("(replay of {} finding) {}", status, f.msg),
                        case: e["case"].clone(),
                    };
                    let p = write_replay(&root, prop.id, &v, seed);
                    violations.push((v, p));
                }
            }
        }
    }
    let regress = root.join("replays").join("regress");
    if let Ok(rd) = std::fs::read_dir(&regress) {
        let mut files: Vec<_> = rd.filter_map(|e| e.ok()).map(|e| e.path()).collect();
        files.sort();
        for f in files {
            let Ok(s) = std::fs::read_to_string(&f) else { continue };
            let Ok(v) = serde_json::from_str::<Value>(&s) else { continue };
            if v["property"] != prop.id {
                continue;
            }
            let subname = v["sub"].as_str().unwrap_or("");
            let Some(sc) = prop.subs.iter().find(|s| s.name() == subname) else { continue };
            replayed += 1;
            if let Ok(Err(fl)) = sc.replay(&v["case"]) {
                if !tolerated.contains(&fl.sig) {
                    let vi = Violation {
                        sub: subname.to_string(),
                        sig: fl.sig,
                        msg: format!("(regression corpus {}) {}", f.display(), fl.msg),
                        case: v["case"].clone(),
                    };
                    violations.push((vi, f.clone()));
                }
            }
        }
    }
    for l in &known_lines {
        println!("{}", l);
    }

    // ---- generated search
    let env = Arc::new(RunEnv {
        property: prop.id.to_string(),
        quick_mult: prop.quick_mult,
        tier,
        seed,
        tolerated,
        stop: prop.subs.iter().map(|s| (s.name().to_string(), AtomicBool::new(false))).collect(),
        slots: (0..nthreads)
            .map(|_| Slot {
                started_ms: AtomicU64::new(0),
                what: Mutex::new((String::new(), vec![])),
            })
            .collect(),
        t0,
    });
    let only_sub = std::env::var("VERIF_SUB").ok();
    let mut jobs: Vec<(usize, usize, usize)> = vec![];
    for (si, s) in prop.subs.iter().enumerate() {
        if let Some(o) = &only_sub {
            if s.name() != o {
                continue;
            }
        }
        let nj = s.njobs(tier, prop.quick_mult);
        for j in 0..nj {
            jobs.push((si, j, nj));
        }
    }
    // interleave jobs of different subs so long ones start early: enumerations first
    jobs.sort_by_key(|&(si, j, nj)| (if j == nj - 1 { 0 } else { 1 }, j, si));
    let queue = Mutex::new(jobs.into_iter());
    let reports: Mutex<BTreeMap<usize, SubReport>> = Mutex::new(BTreeMap::new());
    let budget_ms: u64 = std::env::var("VERIF_CASE_BUDGET_S")
        .ok()
        .and_then(|s| s.parse::<u64>().ok())
        .unwrap_or(tier.pick(120, 600))
        * 1000;
    let done = AtomicBool::new(false);
    let hung: Mutex<Option<(String, Value)>> = Mutex::new(None);
    std::thread::scope(|sc| {
        let mut handles = vec![];
        for slot in 0..nthreads {
            let env = env.clone();
            let queue = &queue;
            let reports = &reports;
            let subs = &prop.subs;
            handles.push(
                std::thread::Builder::new()
                    .stack_size(64 << 20)
                    .spawn_scoped(sc, move || loop {
                        let next = queue.lock().unwrap().next();
                        let Some((si, j, nj)) = next else { break };
                        let r = subs[si].run_job(&env, j, nj, slot);
                        reports
                            .lock()
                            .unwrap()
                            .entry(si)
                            .or_default()
                            .merge(r);
                    })
                    .unwrap(),
            );
        }
        // watchdog
        let envw = env.clone();
        let done_ref = &done;
        let hung_ref = &hung;
        let subs = &prop.subs;
        sc.spawn(move || {
            while !done_ref.load(Ordering::SeqCst) {
                std::thread::sleep(std::time::Duration::from_millis(200));
                let now = envw.t0.elapsed().as_millis() as u64 + 1;
                for s in envw.slots.iter() {
                    let st = s.started_ms.load(Ordering::SeqCst);
                    if st != 0 && now > st + budget_ms {
                        let w = s.what.lock().unwrap();
                        let case = subs
                            .iter()
                            .find(|x| x.name() == w.0)
                            .map(|x| x.bytes_to_json(&w.1))
                            .unwrap_or(Value::Null);
                        *hung_ref.lock().unwrap() = Some((w.0.clone(), case));
                        return;
                    }
                }
            }
        });
        // wait for workers or a hang
        loop {
            if handles.iter().all(|h| h.is_finished()) {
                break;
            }
            if hung.lock().unwrap().is_some() {
                let (subn, case) = hung.lock().unwrap().clone().unwrap();
                let dir = root.join("replays").join("found");
                let _ = std::fs::create_dir_all(&dir);
                let p = dir.join(format!("{}-{}-hang.json", prop.id, subn));
                let _ = std::fs::write(
                    &p,
                    serde_json::to_string_pretty(
                        &json!({"property": prop.id, "sub": subn, "sig": "hang", "case": case}),
                    )
                    .unwrap(),
                );
                println!(
                    "INCONCLUSIVE property={} sub={} a case exceeded the {} s budget (no verdict); case saved to {}",
                    prop.id,
                    subn,
                    budget_ms / 1000,
                    p.display()
                );
                std::process::exit(2);
            }
            std::thread::sleep(std::time::Duration::from_millis(50));
        }
        done.store(true, Ordering::SeqCst);
    });

    let reports = reports.into_inner().unwrap();
    let mut evaluations = 0u64;
    let mut distinct_nontrivial = 0u64;
    let mut excluded = 0u64;
    let mut classes = BTreeMap::new();
    let mut sub_checks = serde_json::Map::new();
    let mut samples = vec![];
    let mut all_exhaustive: Option<bool> = None;
    for (si, r) in reports.iter() {
        let name = prop.subs[*si].name();
        evaluations += r.evaluations;
        distinct_nontrivial += r.nontrivial_hashes.len() as u64;
        excluded += r.excluded_known;
        for (k, v) in &r.classes {
            classes.insert(format!("{}/{}", name, k), *v);
        }
        let mut sc = json!({
            "evaluations": r.evaluations,
            "distinct": r.all_hashes.len(),
            "distinct_nontrivial": r.nontrivial_hashes.len(),
            "excluded_known": r.excluded_known,
            "max_observed_over_bound": r.max_ratio,
            "counters": r.counters,
        });
        if r.enumerated > 0 {
            sc["enumerated"] = json!(r.enumerated);
            sc["enumeration_complete"] = json!(r.exhaustive_done);
            all_exhaustive = Some(all_exhaustive.unwrap_or(true) && r.exhaustive_done);
        }
        sub_checks.insert(name.to_string(), sc);
        for s in r.samples.iter().take(2) {
            samples.push(json!({"sub": name, "case": s}));
        }
        for v in &r.violations {
            let p = write_replay(&root, prop.id, v, seed);
            if !violations.iter().any(|(_, q)| *q == p) {
                violations.push((v.clone(), p));
            }
        }
    }
    let wall = t0.elapsed().as_secs_f64();
    let mut coverage = json!({
        "evaluations": evaluations + replayed,
        "generated": evaluations,
        "replayed_stored_cases": replayed,
        "distinct_nontrivial": distinct_nontrivial,
        "rule": prop.rule,
        "samples": samples,
        "classes": classes,
        "excluded_known": excluded,
        "sub_checks": sub_checks,
        "known_findings_printed": known_lines,
    });
    if let Some(x) = all_exhaustive {
        coverage["exhaustive_enumerations_complete"] = json!(x);
    }
    let ev = json!({
        "property_id": prop.id,
        "tier": tier.name(),
        "seed": seed,
        "level": "exploration",
        "coverage": coverage,
        "assumptions": prop.assumptions,
        "wall_s": wall,
        "violations": violations.len(),
    });
    if only_sub.is_none() && std::env::var("VERIF_NOEVIDENCE").is_err() {
        let evdir = root.join("evidence");
        let _ = std::fs::create_dir_all(&evdir);
        let _ = std::fs::write(
            evdir.join(format!("{}.json", prop.id)),
            serde_json::to_string_pretty(&ev).unwrap(),
        );
    }
    for (v, p) in &violations {
        println!("VIOLATION property={} replay={}", prop.id, p.display());
        let m: String = v.msg.chars().take(1500).collect();
        println!("  sub={} sig={} :: {}", v.sub, v.sig, m);
    }
    println!(
        "{} {} seed={} evaluations={} distinct_nontrivial={} excluded_known={} violations={} wall={:.1}s",
        prop.id,
        tier.name(),
        seed,
        evaluations,
        distinct_nontrivial,
        excluded,
        violations.len(),
        wall
    );
    if std::env::var("VERIF_VERBOSE").is_ok() {
        for (si, r) in reports.iter() {
            println!(
                "  {:<28} eval={:<7} nt={:<7} ratios={:?}",
                prop.subs[*si].name(),
                r.evaluations,
                r.nontrivial_hashes.len(),
                r.max_ratio
            );
            if std::env::var("VERIF_VERBOSE").unwrap() == "2" {
                println!("      classes={:?} counters={:?}", r.classes, r.counters);
            }
        }
    }
    if !violations.is_empty() {
        return 1;
    }
    // vacuity health check
    if only_sub.is_none() && distinct_nontrivial < 2 {
        println!("INCONCLUSIVE property={} health check: fewer than 2 distinct non-trivial cases", prop.id);
        return 2;
    }
    0
}

/// Strict replay of one stored case file.
pub fn replay_file(props: Vec<Property>, path: &str) -> i32 {
    let Ok(s) = std::fs::read_to_string(path) else {
        eprintln!("cannot read {}", path);
        return 2;
    };
    let Ok(v) = serde_json::from_str::<Value>(&s) else {
        eprintln!("cannot parse {}", path);
        return 2;
    };
    let pid = v["property"].as_str().unwrap_or("");
    let subn = v["sub"].as_str().unwrap_or("");
    for p in props {
        if p.id != pid {
            continue;
        }
        for sc in p.subs {
            if sc.name() == subn {
                return match sc.replay(&v["case"]) {
                    Err(e) => {
                        eprintln!("case does not decode: {}", e);
                        2
                    }
                    Ok(Ok(())) => {
                        println!("replay passed: property={} sub={}", pid, subn);
                        0
                    }
                    Ok(Err(f)) => {
                        println!("VIOLATION property={} replay={}", pid, path);
                        println!("  sub={} sig={} :: {}", subn, f.sig, f.msg);
                        1
                    }
                };
            }
        }
    }
    eprintln!("no such property/sub: {} {}", pid, subn);
    2
}

pub fn boxed<S: Strategy + 'static>(s: S) -> BoxedStrategy<S::Value> {
    s.boxed()
}

// ---------------------------------------------------------------- trait-level entry points of the library
// Estimators are reachable both through their inherent `fit` / `predict` / `transform` and through the
// generic traits of `smartcore::api` (what `cross_validate` and user code written against the traits call).
// The checks go through the traits in every other case.
pub fn sup_fit<X, Y, P: Clone, E: smartcore::api::SupervisedEstimator<X, Y, P>>(x: &X, y: &Y, p: P) -> Result<E, smartcore::error::Failed> {
    E::fit(x, y, p)
}
pub fn unsup_fit<X, P: Clone, E: smartcore::api::UnsupervisedEstimator<X, P>>(x: &X, p: P) -> Result<E, smartcore::error::Failed> {
    E::fit(x, p)
}
pub fn tr_predict<X, Y, E: smartcore::api::Predictor<X, Y>>(e: &E, x: &X) -> Result<Y, smartcore::error::Failed> {
    e.predict(x)
}
pub fn tr_transform<X, E: smartcore::api::Transformer<X>>(e: &E, x: &X) -> Result<X, smartcore::error::Failed> {
    e.transform(x)
}
