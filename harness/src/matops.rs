//! One executable description of every BaseMatrix / BaseVector / stats / high-order
//! operation: `exec` runs it on a backend, `model` computes the textbook value on the
//! logical row-major view. Shared by C03 (dense vs model) and C20 (three backends).
use crate::engine::{catch, fail, Fail};
use crate::oracle::{self, Mat};
use serde::{Deserialize, Serialize};
use smartcore::linalg::high_order::HighOrderOperations;
use smartcore::linalg::stats::{MatrixPreprocessing, MatrixStats};
use smartcore::linalg::{BaseMatrix, BaseVector, Matrix};
use smartcore::math::num::RealNumber;

pub fn tf<T: RealNumber>(x: f64) -> T {
    T::from_f64(x).unwrap()
}
pub fn ft<T: RealNumber>(x: T) -> f64 {
    x.to_f64().unwrap()
}
pub fn tvec<T: RealNumber>(v: &[f64]) -> Vec<T> {
    v.iter().map(|x| tf(*x)).collect()
}
pub fn fvec<T: RealNumber>(v: &[T]) -> Vec<f64> {
    v.iter().map(|x| ft(*x)).collect()
}

/// A way of materialising a logical matrix in some backend.
pub trait Build<T: RealNumber>: 'static {
    type M: Matrix<T>;
    const NAME: &'static str;
    fn build(m: &Mat) -> Self::M;
    fn build_vec(v: &[f64]) -> <Self::M as BaseMatrix<T>>::RowVector;
}

pub struct DenseB;
impl<T: RealNumber> Build<T> for DenseB {
    type M = smartcore::linalg::naive::dense_matrix::DenseMatrix<T>;
    const NAME: &'static str = "dense";
    fn build(m: &Mat) -> Self::M {
        let rows: Vec<Vec<T>> = m.rows().iter().map(|r| tvec(r)).collect();
        smartcore::linalg::naive::dense_matrix::DenseMatrix::from_2d_vec(&rows)
    }
    fn build_vec(v: &[f64]) -> Vec<T> {
        tvec(v)
    }
}

pub fn to_mat<T: RealNumber, M: BaseMatrix<T>>(m: &M) -> Mat {
    let (r, c) = m.shape();
    Mat::from_fn(r, c, |i, j| ft(m.get(i, j)))
}
pub fn vec_to_f64<T: RealNumber, V: BaseVector<T>>(v: &V) -> Vec<f64> {
    (0..v.len()).map(|i| ft(v.get(i))).collect()
}

#[derive(Clone, Debug, PartialEq, Serialize, Deserialize)]
pub enum Val {
    M(Mat),
    V(Vec<f64>),
    S(f64),
    I(Vec<usize>),
    B(bool),
    Unit,
}

#[derive(Clone, Copy, Debug, PartialEq, Eq, Serialize, Deserialize)]
pub enum Arith {
    Add,
    Sub,
    Mul,
    Div,
}

#[derive(Clone, Debug, PartialEq, Serialize, Deserialize)]
pub enum Op {
    Read,
    Set { i: usize, j: usize, x: f64 },
    GetRow { i: usize },
    GetCol { j: usize },
    Transpose,
    Matmul,
    Ab { ta: bool, tb: bool },
    Dot,
    HStack,
    VStack,
    Slice { r0: usize, r1: usize, c0: usize, c1: usize },
    Reshape { r: usize, c: usize },
    Take { idx: Vec<usize>, axis: u8 },
    ToRowVector,
    FromRowVector,
    Bin(Arith),
    Scalar(Arith, f64),
    Elem(Arith, usize, usize, f64),
    Norm2,
    Norm { p: f64 },
    Sum,
    Min,
    Max,
    MaxDiff,
    ColumnMean,
    Mean { axis: u8 },
    Var { axis: u8 },
    Std { axis: u8 },
    Scale { axis: u8, mean: Vec<f64>, std: Vec<f64> },
    Cov,
    Argmax,
    Unique,
    Softmax,
    Pow { p: f64 },
    Abs,
    Neg,
    Binarize { t: f64 },
    Eq,
    ApproxEq { tol: f64 },
    CopyFrom,
    Eye { n: usize },
    Zeros,
    Ones,
    Fill { x: f64 },
}

impl Op {
    pub fn name(&self) -> String {
        match self {
            Op::Ab { ta, tb } => format!("ab_{}{}", *ta as u8, *tb as u8),
            Op::Bin(a) => format!("bin_{:?}", a).to_lowercase(),
            Op::Scalar(a, _) => format!("scalar_{:?}", a).to_lowercase(),
            Op::Elem(a, ..) => format!("elem_{:?}", a).to_lowercase(),
            Op::Take { axis, .. } => format!("take_axis{}", axis),
            Op::Mean { axis } => format!("mean_axis{}", axis),
            Op::Var { axis } => format!("var_axis{}", axis),
            Op::Std { axis } => format!("std_axis{}", axis),
            Op::Scale { axis, .. } => format!("scale_axis{}", axis),
            o => {
                let s = format!("{:?}", o);
                let s = s.split(|c: char| c == ' ' || c == '{' || c == '(').next().unwrap().to_string();
                s.to_lowercase()
            }
        }
    }
    /// whether the second operand is used
    pub fn binary(&self) -> bool {
        matches!(
            self,
            Op::Matmul
                | Op::Ab { .. }
                | Op::Dot
                | Op::HStack
                | Op::VStack
                | Op::Bin(_)
                | Op::MaxDiff
                | Op::Eq
                | Op::ApproxEq { .. }
                | Op::CopyFrom
        )
    }
}

fn bits_eq(a: &Mat, b: &Mat) -> bool {
    a.r == b.r && a.c == b.c && a.d.iter().zip(&b.d).all(|(x, y)| x.to_bits() == y.to_bits() || (x.is_nan() && y.is_nan()))
}

fn both<T: RealNumber, M: Matrix<T>>(
    tag: &str,
    copying: impl FnOnce() -> M,
    inplace: impl FnOnce() -> M,
) -> Result<Result<Val, String>, Fail> {
    let r1 = catch(copying);
    let r2 = catch(inplace);
    match (r1, r2) {
        (Ok(x), Ok(y)) => {
            let (mx, my) = (to_mat(&x), to_mat(&y));
            if !bits_eq(&mx, &my) {
                return fail(
                    format!("{}/inplace-vs-copy", tag),
                    format!("in-place and copying variants differ: copying {:?} in-place {:?}", mx, my),
                );
            }
            Ok(Ok(Val::M(mx)))
        }
        (Err(e), Err(_)) => Ok(Err(e)),
        (Ok(_), Err(e)) => fail(
            format!("{}/inplace-vs-copy-outcome", tag),
            format!("copying variant returned but in-place variant panicked: {}", e),
        ),
        (Err(e), Ok(_)) => fail(
            format!("{}/inplace-vs-copy-outcome", tag),
            format!("in-place variant returned but copying variant panicked: {}", e),
        ),
    }
}

/// Runs `op` on backend `B`. Outer error: an internal inconsistency (in-place vs copying).
/// Inner error: the operation panicked (message).
pub fn exec<T: RealNumber, B: Build<T>>(
    op: &Op,
    a: &Mat,
    b: &Mat,
) -> Result<Result<Val, String>, Fail> {
    let tag = format!("{}/{}", B::NAME, op.name());
    let ma = B::build(a);
    let mb = B::build(b);
    let m = |x: B::M| Val::M(to_mat(&x));
    let r: Result<Val, String> = match op {
        Op::Read => catch(|| {
            let (r, c) = ma.shape();
            Val::M(Mat::from_fn(r, c, |i, j| ft(ma.get(i, j))))
        }),
        Op::Set { i, j, x } => catch(|| {
            let mut z = ma.clone();
            z.set(*i, *j, tf(*x));
            m(z)
        }),
        Op::GetRow { i } => {
            let r = catch(|| {
                let v1 = vec_to_f64(&ma.get_row(*i));
                let v2 = fvec(&ma.get_row_as_vec(*i));
                let mut buf = vec![T::zero(); ma.shape().1];
                ma.copy_row_as_vec(*i, &mut buf);
                (v1, v2, fvec(&buf))
            });
            match r {
                Ok((v1, v2, v3)) => {
                    if v1 != v2 || v1 != v3 {
                        return fail(
                            format!("{}/variants", tag),
                            format!("get_row {:?} get_row_as_vec {:?} copy_row_as_vec {:?}", v1, v2, v3),
                        );
                    }
                    Ok(Val::V(v1))
                }
                Err(e) => Err(e),
            }
        }
        Op::GetCol { j } => {
            let r = catch(|| {
                let v2 = fvec(&ma.get_col_as_vec(*j));
                let mut buf = vec![T::zero(); ma.shape().0];
                ma.copy_col_as_vec(*j, &mut buf);
                (v2, fvec(&buf))
            });
            match r {
                Ok((v2, v3)) => {
                    if v2 != v3 {
                        return fail(format!("{}/variants", tag), format!("get_col_as_vec {:?} copy_col_as_vec {:?}", v2, v3));
                    }
                    Ok(Val::V(v2))
                }
                Err(e) => Err(e),
            }
        }
        Op::Transpose => catch(|| m(ma.transpose())),
        Op::Matmul => catch(|| m(ma.matmul(&mb))),
        Op::Ab { ta, tb } => catch(|| m(ma.ab(*ta, &mb, *tb))),
        Op::Dot => catch(|| Val::S(ft(ma.dot(&mb)))),
        Op::HStack => catch(|| m(ma.h_stack(&mb))),
        Op::VStack => catch(|| m(ma.v_stack(&mb))),
        Op::Slice { r0, r1, c0, c1 } => catch(|| m(ma.slice(*r0..*r1, *c0..*c1))),
        Op::Reshape { r, c } => catch(|| m(ma.reshape(*r, *c))),
        Op::Take { idx, axis } => catch(|| m(ma.take(idx, *axis))),
        Op::ToRowVector => catch(|| Val::V(vec_to_f64(&ma.clone().to_row_vector()))),
        Op::FromRowVector => catch(|| {
            // flatten a, then build a 1xN matrix from the vector
            let flat: Vec<f64> = a.d.clone();
            m(B::M::from_row_vector(B::build_vec(&flat)))
        }),
        Op::Bin(k) => {
            return both::<T, B::M>(
                &tag,
                || match k {
                    Arith::Add => ma.add(&mb),
                    Arith::Sub => ma.sub(&mb),
                    Arith::Mul => ma.mul(&mb),
                    Arith::Div => ma.div(&mb),
                },
                || {
                    let mut z = ma.clone();
                    match k {
                        Arith::Add => z.add_mut(&mb),
                        Arith::Sub => z.sub_mut(&mb),
                        Arith::Mul => z.mul_mut(&mb),
                        Arith::Div => z.div_mut(&mb),
                    };
                    z
                },
            )
        }
        Op::Scalar(k, x) => {
            let x: T = tf(*x);
            return both::<T, B::M>(
                &tag,
                || match k {
                    Arith::Add => ma.add_scalar(x),
                    Arith::Sub => ma.sub_scalar(x),
                    Arith::Mul => ma.mul_scalar(x),
                    Arith::Div => ma.div_scalar(x),
                },
                || {
                    let mut z = ma.clone();
                    match k {
                        Arith::Add => z.add_scalar_mut(x),
                        Arith::Sub => z.sub_scalar_mut(x),
                        Arith::Mul => z.mul_scalar_mut(x),
                        Arith::Div => z.div_scalar_mut(x),
                    };
                    z
                },
            );
        }
        Op::Elem(k, i, j, x) => catch(|| {
            let mut z = ma.clone();
            let x: T = tf(*x);
            match k {
                Arith::Add => z.add_element_mut(*i, *j, x),
                Arith::Sub => z.sub_element_mut(*i, *j, x),
                Arith::Mul => z.mul_element_mut(*i, *j, x),
                Arith::Div => z.div_element_mut(*i, *j, x),
            };
            m(z)
        }),
        Op::Norm2 => catch(|| Val::S(ft(ma.norm2()))),
        Op::Norm { p } => catch(|| Val::S(ft(ma.norm(tf(*p))))),
        Op::Sum => catch(|| Val::S(ft(ma.sum()))),
        Op::Min => catch(|| Val::S(ft(ma.min()))),
        Op::Max => catch(|| Val::S(ft(ma.max()))),
        Op::MaxDiff => catch(|| Val::S(ft(ma.max_diff(&mb)))),
        Op::ColumnMean => catch(|| Val::V(fvec(&ma.column_mean()))),
        Op::Mean { axis } => catch(|| Val::V(fvec(&ma.mean(*axis)))),
        Op::Var { axis } => catch(|| Val::V(fvec(&ma.var(*axis)))),
        Op::Std { axis } => catch(|| Val::V(fvec(&ma.std(*axis)))),
        Op::Scale { axis, mean, std } => catch(|| {
            let mut z = ma.clone();
            z.scale_mut(&tvec::<T>(mean), &tvec::<T>(std), *axis);
            m(z)
        }),
        Op::Cov => catch(|| m(ma.cov())),
        Op::Argmax => catch(|| Val::I(ma.argmax())),
        Op::Unique => catch(|| Val::V(fvec(&ma.unique()))),
        Op::Softmax => catch(|| {
            let mut z = ma.clone();
            z.softmax_mut();
            m(z)
        }),
        Op::Pow { p } => {
            let p: T = tf(*p);
            return both::<T, B::M>(
                &tag,
                || ma.clone().pow(p),
                || {
                    let mut z = ma.clone();
                    z.pow_mut(p);
                    z
                },
            );
        }
        Op::Abs => {
            return both::<T, B::M>(
                &tag,
                || ma.abs(),
                || {
                    let mut z = ma.clone();
                    z.abs_mut();
                    z
                },
            )
        }
        Op::Neg => {
            return both::<T, B::M>(
                &tag,
                || ma.negative(),
                || {
                    let mut z = ma.clone();
                    z.negative_mut();
                    z
                },
            )
        }
        Op::Binarize { t } => {
            let t: T = tf(*t);
            return both::<T, B::M>(
                &tag,
                || ma.binarize(t),
                || {
                    let mut z = ma.clone();
                    z.binarize_mut(t);
                    z
                },
            );
        }
        Op::Eq => catch(|| Val::B(ma == mb)),
        Op::ApproxEq { tol } => catch(|| Val::B(ma.approximate_eq(&mb, tf(*tol)))),
        Op::CopyFrom => catch(|| {
            let mut z = ma.clone();
            z.copy_from(&mb);
            m(z)
        }),
        Op::Eye { n } => catch(|| m(B::M::eye(*n))),
        Op::Zeros => catch(|| m(B::M::zeros(a.r, a.c))),
        Op::Ones => catch(|| m(B::M::ones(a.r, a.c))),
        Op::Fill { x } => catch(|| m(B::M::fill(a.r, a.c, tf(*x)))),
    };
    Ok(r)
}

/// What the mathematics (and the documented shape contract) requires.
#[derive(Clone, Debug)]
pub enum Expect {
    /// must be rejected with a panic
    Panic,
    /// value with per-result absolute tolerance (0 = exact)
    Val(Val, f64),
    /// any index of a row maximum
    ArgmaxOf(Mat),
    /// boolean result is left open (comparison too close to the tolerance)
    AnyBool,
    /// the contract does not say (recorded, not asserted)
    Unspecified,
}

fn is_vec(m: &Mat) -> bool {
    m.r == 1 || m.c == 1
}

fn abs_mul_max(a: &Mat, b: &Mat) -> f64 {
    a.abs().mul(&b.abs()).max_abs()
}

/// textbook value of `op` on the logical views `a`, `b`; `eps` = machine epsilon of the
/// element type under test.
pub fn model(op: &Op, a: &Mat, b: &Mat, eps: f64) -> Expect {
    use Expect::*;
    let n = a.r * a.c;
    let amax = a.max_abs();
    match op {
        Op::Read => Val(self::Val::M(a.clone()), 0.0),
        Op::Set { i, j, x } => {
            let mut z = a.clone();
            z.set(*i, *j, *x);
            Val(self::Val::M(z), 0.0)
        }
        Op::GetRow { i } => Val(self::Val::V(a.row(*i)), 0.0),
        Op::GetCol { j } => Val(self::Val::V(a.col(*j)), 0.0),
        Op::Transpose => Val(self::Val::M(a.t()), 0.0),
        Op::Matmul => {
            if a.c != b.r {
                Panic
            } else {
                let tol = 4.0 * (a.c as f64 + 1.0) * eps * abs_mul_max(a, b);
                Val(self::Val::M(a.mul(b)), tol)
            }
        }
        Op::Ab { ta, tb } => {
            let x = if *ta { a.t() } else { a.clone() };
            let y = if *tb { b.t() } else { b.clone() };
            if x.c != y.r {
                Panic
            } else {
                let tol = 4.0 * (x.c as f64 + 1.0) * eps * abs_mul_max(&x, &y);
                Val(self::Val::M(x.mul(&y)), tol)
            }
        }
        Op::Dot => {
            if a.r * a.c != b.r * b.c {
                Panic
            } else if !is_vec(a) && !is_vec(b) {
                Panic
            } else if is_vec(a) && is_vec(b) {
                let s = oracle::dot(&a.d, &b.d);
                let sc: f64 = a.d.iter().zip(&b.d).map(|(x, y)| (x * y).abs()).sum();
                Val(self::Val::S(s), 4.0 * (n as f64 + 1.0) * eps * sc)
            } else {
                Unspecified
            }
        }
        Op::HStack => {
            if a.r != b.r {
                Panic
            } else {
                Val(self::Val::M(a.hstack(b)), 0.0)
            }
        }
        Op::VStack => {
            if a.c != b.c {
                Panic
            } else {
                Val(self::Val::M(a.vstack(b)), 0.0)
            }
        }
        Op::Slice { r0, r1, c0, c1 } => Val(self::Val::M(a.slice(*r0, *r1, *c0, *c1)), 0.0),
        Op::Reshape { r, c } => {
            if r * c != n {
                Panic
            } else {
                Val(self::Val::M(Mat { r: *r, c: *c, d: a.d.clone() }), 0.0)
            }
        }
        Op::Take { idx, axis } => {
            let z = if *axis == 0 {
                Mat::from_fn(idx.len(), a.c, |i, j| a.at(idx[i], j))
            } else {
                Mat::from_fn(a.r, idx.len(), |i, j| a.at(i, idx[j]))
            };
            Val(self::Val::M(z), 0.0)
        }
        Op::ToRowVector => Val(self::Val::V(a.d.clone()), 0.0),
        Op::FromRowVector => Val(self::Val::M(Mat { r: 1, c: n, d: a.d.clone() }), 0.0),
        Op::Bin(k) => {
            if (a.r, a.c) != (b.r, b.c) {
                Panic
            } else {
                let z = Mat::from_fn(a.r, a.c, |i, j| arith(*k, a.at(i, j), b.at(i, j)));
                let tol = 2.0 * eps * z.max_abs();
                Val(self::Val::M(z), tol)
            }
        }
        Op::Scalar(k, x) => {
            let z = a.map(|v| arith(*k, v, *x));
            let tol = 2.0 * eps * z.max_abs();
            Val(self::Val::M(z), tol)
        }
        Op::Elem(k, i, j, x) => {
            let mut z = a.clone();
            z.set(*i, *j, arith(*k, a.at(*i, *j), *x));
            let tol = 2.0 * eps * z.at(*i, *j).abs();
            Val(self::Val::M(z), tol)
        }
        Op::Norm2 => {
            let v = oracle::norm2(&a.d);
            Val(self::Val::S(v), 4.0 * (n as f64 + 2.0) * eps * v)
        }
        Op::Norm { p } => {
            let v = if p.is_infinite() && *p > 0.0 {
                amax
            } else if p.is_infinite() {
                a.d.iter().fold(f64::INFINITY, |m, x| m.min(x.abs()))
            } else {
                a.d.iter().map(|x| x.abs().powf(*p)).sum::<f64>().powf(1.0 / p)
            };
            let tol = if p.is_infinite() { 0.0 } else { 16.0 * (n as f64 + 2.0) * eps * v };
            Val(self::Val::S(v), tol)
        }
        Op::Sum => {
            let s: f64 = a.d.iter().sum();
            let sc: f64 = a.d.iter().map(|x| x.abs()).sum();
            Val(self::Val::S(s), 2.0 * (n as f64) * eps * sc)
        }
        Op::Min => Val(self::Val::S(a.d.iter().cloned().fold(f64::INFINITY, f64::min)), 0.0),
        Op::Max => Val(self::Val::S(a.d.iter().cloned().fold(f64::NEG_INFINITY, f64::max)), 0.0),
        Op::MaxDiff => {
            if (a.r, a.c) != (b.r, b.c) {
                Unspecified
            } else {
                let v = a.sub(b).max_abs();
                Val(self::Val::S(v), 2.0 * eps * v)
            }
        }
        Op::ColumnMean | Op::Mean { axis: 0 } => {
            let mu = a.col_means();
            let sc = a.abs().col_means().iter().cloned().fold(0.0, f64::max);
            Val(self::Val::V(mu), 2.0 * (a.r as f64 + 1.0) * eps * sc)
        }
        Op::Mean { .. } => {
            let t = a.t();
            let mu = t.col_means();
            let sc = t.abs().col_means().iter().cloned().fold(0.0, f64::max);
            Val(self::Val::V(mu), 2.0 * (a.c as f64 + 1.0) * eps * sc)
        }
        Op::Var { .. } | Op::Std { .. } => Unspecified, // handled by `check_var` (per-entry tolerance)
        Op::Scale { axis, mean, std } => {
            let z = Mat::from_fn(a.r, a.c, |i, j| {
                let k = if *axis == 0 { j } else { i };
                (a.at(i, j) - mean[k]) / std[k]
            });
            // two roundings; the subtraction can cancel, so the error is relative to |x|+|mean| over |std|
            let mut tol: f64 = 0.0;
            for i in 0..a.r {
                for j in 0..a.c {
                    let k = if *axis == 0 { j } else { i };
                    tol = tol.max(4.0 * eps * (a.at(i, j).abs() + mean[k].abs()) / std[k].abs());
                }
            }
            Val(self::Val::M(z), tol)
        }
        Op::Cov => {
            if a.r < 2 {
                return Unspecified;
            }
            let mu = a.col_means();
            let z = Mat::from_fn(a.c, a.c, |i, j| {
                (0..a.r).map(|k| (a.at(k, i) - mu[i]) * (a.at(k, j) - mu[j])).sum::<f64>() / (a.r - 1) as f64
            });
            // error: rounding of the mean (n eps |mu|) enters each centred factor
            let spread = (0..a.c)
                .map(|j| (0..a.r).map(|k| (a.at(k, j) - mu[j]).abs()).fold(0.0, f64::max))
                .fold(0.0, f64::max);
            let mumax = mu.iter().fold(0.0f64, |m, x| m.max(x.abs()));
            let dm = 4.0 * (a.r as f64 + 2.0) * eps * (mumax + spread);
            let tol = 4.0 * (a.r as f64) * (2.0 * dm * spread + dm * dm + 8.0 * eps * spread * spread) * a.r as f64 / (a.r - 1) as f64;
            Val(self::Val::M(z), tol)
        }
        Op::Argmax => ArgmaxOf(a.clone()),
        Op::Unique => {
            let mut v = a.d.clone();
            v.sort_by(|x, y| x.partial_cmp(y).unwrap());
            v.dedup();
            Val(self::Val::V(v), 0.0)
        }
        Op::Softmax => {
            let mx = a.d.iter().cloned().fold(f64::NEG_INFINITY, f64::max);
            let e: Vec<f64> = a.d.iter().map(|x| (x - mx).exp()).collect();
            let z: f64 = e.iter().sum();
            let d: Vec<f64> = e.iter().map(|x| x / z).collect();
            // exp(x - max): the argument carries an absolute rounding error of eps*|x|
            let tol = 8.0 * eps * (n as f64 + 4.0 + 2.0 * amax);
            Val(self::Val::M(Mat { r: a.r, c: a.c, d }), tol)
        }
        Op::Pow { p } => {
            let z = a.map(|x| x.powf(*p));
            let tol = 8.0 * eps * z.max_abs();
            Val(self::Val::M(z), tol)
        }
        Op::Abs => Val(self::Val::M(a.abs()), 0.0),
        Op::Neg => Val(self::Val::M(a.map(|x| -x)), 0.0),
        Op::Binarize { t } => Val(self::Val::M(a.map(|x| if x > *t { 1.0 } else { 0.0 })), 0.0),
        Op::Eq => {
            if (a.r, a.c) != (b.r, b.c) {
                Val(self::Val::B(false), 0.0)
            } else {
                let d = a.sub(b).max_abs();
                if d == 0.0 {
                    Val(self::Val::B(true), 0.0)
                } else if d > 1e-3 {
                    Val(self::Val::B(false), 0.0)
                } else {
                    AnyBool
                }
            }
        }
        Op::ApproxEq { tol } => {
            if (a.r, a.c) != (b.r, b.c) {
                Val(self::Val::B(false), 0.0)
            } else {
                let d = a.sub(b).max_abs();
                let slack = 4.0 * eps * (amax + b.max_abs());
                if d <= tol - slack {
                    Val(self::Val::B(true), 0.0)
                } else if d > tol + slack {
                    Val(self::Val::B(false), 0.0)
                } else {
                    AnyBool
                }
            }
        }
        Op::CopyFrom => {
            if (a.r, a.c) != (b.r, b.c) {
                Panic
            } else {
                Val(self::Val::M(b.clone()), 0.0)
            }
        }
        Op::Eye { n } => Val(self::Val::M(Mat::eye(*n)), 0.0),
        Op::Zeros => Val(self::Val::M(Mat::zeros(a.r, a.c)), 0.0),
        Op::Ones => Val(self::Val::M(Mat::zeros(a.r, a.c).map(|_| 1.0)), 0.0),
        Op::Fill { x } => Val(self::Val::M(Mat::zeros(a.r, a.c).map(|_| *x)), 0.0),
    }
}

pub fn arith(k: Arith, x: f64, y: f64) -> f64 {
    match k {
        Arith::Add => x + y,
        Arith::Sub => x - y,
        Arith::Mul => x * y,
        Arith::Div => x / y,
    }
}

fn close(g: f64, e: f64, tol: f64) -> bool {
    if g.is_nan() || e.is_nan() {
        return g.is_nan() && e.is_nan();
    }
    if g == e {
        return true;
    }
    (g - e).abs() <= tol
}

/// Compares the outcome of `exec` with `model`. `tag` prefixes the failure signature.
pub fn compare(tag: &str, got: &Result<Val, String>, exp: &Expect) -> Result<(), Fail> {
    match (got, exp) {
        (_, Expect::Unspecified) => Ok(()),
        (Err(_), Expect::Panic) => Ok(()),
        (Ok(v), Expect::Panic) => fail(
            format!("{}/accepted-bad-shape", tag),
            format!("operands of incompatible shape were accepted, result {:?}", v),
        ),
        (Err(m), _) => fail(format!("{}/panic", tag), format!("panicked on valid input: {}", m)),
        (Ok(Val::B(_)), Expect::AnyBool) => Ok(()),
        (Ok(Val::I(idx)), Expect::ArgmaxOf(a)) => {
            if idx.len() != a.r {
                return fail(format!("{}/len", tag), format!("argmax length {} for {} rows", idx.len(), a.r));
            }
            for (i, &j) in idx.iter().enumerate() {
                let mx = a.row(i).iter().cloned().fold(f64::NEG_INFINITY, f64::max);
                if j >= a.c || a.at(i, j) != mx {
                    return fail(format!("{}/value", tag), format!("row {}: argmax {} is not a maximum of {:?}", i, j, a.row(i)));
                }
            }
            Ok(())
        }
        (Ok(g), Expect::Val(e, tol)) => match (g, e) {
            (Val::M(g), Val::M(e)) => {
                if (g.r, g.c) != (e.r, e.c) {
                    return fail(format!("{}/shape", tag), format!("shape {}x{} expected {}x{}", g.r, g.c, e.r, e.c));
                }
                for i in 0..g.d.len() {
                    if !close(g.d[i], e.d[i], *tol) {
                        return fail(
                            format!("{}/value", tag),
                            format!("entry ({},{}) = {:e}, expected {:e} (tol {:e}); got {:?} expected {:?}", i / g.c, i % g.c, g.d[i], e.d[i], tol, g, e),
                        );
                    }
                }
                Ok(())
            }
            (Val::V(g), Val::V(e)) => {
                if g.len() != e.len() {
                    return fail(format!("{}/shape", tag), format!("length {} expected {}", g.len(), e.len()));
                }
                for i in 0..g.len() {
                    if !close(g[i], e[i], *tol) {
                        return fail(format!("{}/value", tag), format!("entry {} = {:e}, expected {:e} (tol {:e}); got {:?} expected {:?}", i, g[i], e[i], tol, g, e));
                    }
                }
                Ok(())
            }
            (Val::S(g), Val::S(e)) => {
                if !close(*g, *e, *tol) {
                    return fail(format!("{}/value", tag), format!("got {:e}, expected {:e} (tol {:e})", g, e, tol));
                }
                Ok(())
            }
            (Val::B(g), Val::B(e)) => {
                if g != e {
                    return fail(format!("{}/value", tag), format!("got {}, expected {}", g, e));
                }
                Ok(())
            }
            (Val::I(g), Val::I(e)) => {
                if g != e {
                    return fail(format!("{}/value", tag), format!("got {:?}, expected {:?}", g, e));
                }
                Ok(())
            }
            (g, e) => fail(format!("{}/kind", tag), format!("result kind mismatch {:?} vs {:?}", g, e)),
        },
        (Ok(g), e) => fail(format!("{}/kind", tag), format!("result kind mismatch {:?} vs {:?}", g, e)),
    }
}

/// Variance / standard deviation along an axis against the two-pass reference, with the
/// tolerance the property states: relative to the spread, plus the rounding of the mean.
pub fn check_var(tag: &str, a: &Mat, axis: u8, is_std: bool, got: &Result<Val, String>, eps: f64, rel: f64) -> Result<(), Fail> {
    let g = match got {
        Err(m) => return fail(format!("{}/panic", tag), format!("panicked: {}", m)),
        Ok(Val::V(v)) => v,
        Ok(o) => return fail(format!("{}/kind", tag), format!("{:?}", o)),
    };
    let t = if axis == 0 { a.clone() } else { a.t() };
    if g.len() != t.c {
        return fail(format!("{}/shape", tag), format!("length {} expected {}", g.len(), t.c));
    }
    for j in 0..t.c {
        let col = t.col(j);
        let var = oracle::var_pop(&col);
        let mu = oracle::mean(&col).abs();
        let nn = col.len() as f64;
        let dm = 16.0 * nn * eps * mu; // rounding of the mean
        // a mean that is off by dm adds exactly dm^2 to a two-pass variance
        let tol = rel * var + dm * dm;
        let (gv, what) = if is_std { (g[j] * g[j], "std") } else { (g[j], "var") };
        let ok = (gv - var).abs() <= tol && (!is_std || g[j] >= 0.0);
        if !ok {
            // Root-cause key: an error no larger than what the one-pass formula E[x^2]-E[x]^2 explains
            // (8 n eps E[x^2]) is "cancellation"; anything else is a plain accuracy failure.
            let ex2 = col.iter().map(|x| x * x).sum::<f64>() / nn;
            let naive_bound = 8.0 * nn * eps * ex2;
            let cancel = if gv.is_nan() { is_std && naive_bound >= var } else { (gv - var).abs() <= naive_bound };
            return fail(
                format!("{}/{}", tag, if cancel { "cancellation" } else { "accuracy" }),
                format!("{} of {:?} = {:e} (squared: {:e}), two-pass variance {:e} (tol {:e})", what, col, g[j], gv, var, tol),
            );
        }
    }
    Ok(())
}

// ------------------------------------------------------------------ vectors

#[derive(Clone, Debug, PartialEq, Serialize, Deserialize)]
pub enum VOp {
    Read,
    Set { i: usize, x: f64 },
    Dot,
    ApproxEq { tol: f64 },
    Norm2,
    Norm { p: f64 },
    Elem(Arith, usize, f64),
    Scalar(Arith, f64),
    Bin(Arith),
    Sum,
    Unique,
    Mean,
    Var,
    Std,
    CopyFrom,
    Take { idx: Vec<usize> },
    Zeros,
    Ones,
    Fill { x: f64 },
    FromArray,
}

impl VOp {
    pub fn name(&self) -> String {
        match self {
            VOp::Elem(a, ..) => format!("velem_{:?}", a).to_lowercase(),
            VOp::Scalar(a, _) => format!("vscalar_{:?}", a).to_lowercase(),
            VOp::Bin(a) => format!("vbin_{:?}", a).to_lowercase(),
            o => {
                let s = format!("{:?}", o);
                format!("v{}", s.split(|c: char| c == ' ' || c == '{' || c == '(').next().unwrap().to_lowercase())
            }
        }
    }
    pub fn binary(&self) -> bool {
        matches!(self, VOp::Dot | VOp::ApproxEq { .. } | VOp::Bin(_) | VOp::CopyFrom)
    }
}

fn vboth<T: RealNumber, V: BaseVector<T>>(tag: &str, copying: impl FnOnce() -> V, inplace: impl FnOnce() -> V) -> Result<Result<Val, String>, Fail> {
    let r1 = catch(copying);
    let r2 = catch(inplace);
    match (r1, r2) {
        (Ok(x), Ok(y)) => {
            let (vx, vy) = (vec_to_f64(&x), vec_to_f64(&y));
            let same = vx.len() == vy.len() && vx.iter().zip(&vy).all(|(p, q)| p.to_bits() == q.to_bits() || (p.is_nan() && q.is_nan()));
            if !same {
                return fail(format!("{}/inplace-vs-copy", tag), format!("copying {:?} in-place {:?}", vx, vy));
            }
            Ok(Ok(Val::V(vx)))
        }
        (Err(e), Err(_)) => Ok(Err(e)),
        (Ok(_), Err(e)) => fail(format!("{}/inplace-vs-copy-outcome", tag), format!("only the in-place variant panicked: {}", e)),
        (Err(e), Ok(_)) => fail(format!("{}/inplace-vs-copy-outcome", tag), format!("only the copying variant panicked: {}", e)),
    }
}

pub fn vexec<T: RealNumber, B: Build<T>>(op: &VOp, a: &[f64], b: &[f64]) -> Result<Result<Val, String>, Fail> {
    type RV<T, B> = <<B as Build<T>>::M as BaseMatrix<T>>::RowVector;
    let tag = format!("{}/{}", B::NAME, op.name());
    let va = B::build_vec(a);
    let vb = B::build_vec(b);
    let v = |x: &RV<T, B>| Val::V(vec_to_f64(x));
    let r = match op {
        VOp::Read => catch(|| {
            let l = va.len();
            let g: Vec<f64> = (0..l).map(|i| ft(va.get(i))).collect();
            let tv = fvec(&va.to_vec());
            assert!(g == tv, "get() and to_vec() disagree");
            assert!(va.is_empty() == (l == 0));
            Val::V(g)
        }),
        VOp::Set { i, x } => catch(|| {
            let mut z = va.clone();
            z.set(*i, tf(*x));
            v(&z)
        }),
        VOp::Dot => catch(|| Val::S(ft(va.dot(&vb)))),
        VOp::ApproxEq { tol } => catch(|| Val::B(va.approximate_eq(&vb, tf(*tol)))),
        VOp::Norm2 => catch(|| Val::S(ft(va.norm2()))),
        VOp::Norm { p } => catch(|| Val::S(ft(va.norm(tf(*p))))),
        VOp::Elem(k, i, x) => catch(|| {
            let mut z = va.clone();
            let x: T = tf(*x);
            match k {
                Arith::Add => z.add_element_mut(*i, x),
                Arith::Sub => z.sub_element_mut(*i, x),
                Arith::Mul => z.mul_element_mut(*i, x),
                Arith::Div => z.div_element_mut(*i, x),
            }
            v(&z)
        }),
        VOp::Scalar(k, x) => {
            let x: T = tf(*x);
            return vboth::<T, RV<T, B>>(
                &tag,
                || match k {
                    Arith::Add => va.add_scalar(x),
                    Arith::Sub => va.sub_scalar(x),
                    Arith::Mul => va.mul_scalar(x),
                    Arith::Div => va.div_scalar(x),
                },
                || {
                    let mut z = va.clone();
                    match k {
                        Arith::Add => z.add_scalar_mut(x),
                        Arith::Sub => z.sub_scalar_mut(x),
                        Arith::Mul => z.mul_scalar_mut(x),
                        Arith::Div => z.div_scalar_mut(x),
                    };
                    z
                },
            );
        }
        VOp::Bin(k) => {
            return vboth::<T, RV<T, B>>(
                &tag,
                || match k {
                    Arith::Add => va.add(&vb),
                    Arith::Sub => va.sub(&vb),
                    Arith::Mul => va.mul(&vb),
                    Arith::Div => va.div(&vb),
                },
                || {
                    let mut z = va.clone();
                    match k {
                        Arith::Add => z.add_mut(&vb),
                        Arith::Sub => z.sub_mut(&vb),
                        Arith::Mul => z.mul_mut(&vb),
                        Arith::Div => z.div_mut(&vb),
                    };
                    z
                },
            )
        }
        VOp::Sum => catch(|| Val::S(ft(va.sum()))),
        VOp::Unique => catch(|| Val::V(fvec(&va.unique()))),
        VOp::Mean => catch(|| Val::S(ft(va.mean()))),
        VOp::Var => catch(|| Val::V(vec![ft(va.var())])),
        VOp::Std => catch(|| Val::V(vec![ft(va.std())])),
        VOp::CopyFrom => catch(|| {
            let mut z = va.clone();
            z.copy_from(&vb);
            v(&z)
        }),
        VOp::Take { idx } => catch(|| v(&va.take(idx))),
        VOp::Zeros => catch(|| v(&RV::<T, B>::zeros(a.len()))),
        VOp::Ones => catch(|| v(&RV::<T, B>::ones(a.len()))),
        VOp::Fill { x } => catch(|| v(&RV::<T, B>::fill(a.len(), tf(*x)))),
        VOp::FromArray => catch(|| v(&RV::<T, B>::from_array(&tvec::<T>(a)))),
    };
    Ok(r)
}

pub fn vmodel(op: &VOp, a: &[f64], b: &[f64], eps: f64) -> Expect {
    use Expect::*;
    let n = a.len() as f64;
    let amax = a.iter().fold(0.0f64, |m, x| m.max(x.abs()));
    match op {
        VOp::Read | VOp::FromArray => Val(self::Val::V(a.to_vec()), 0.0),
        VOp::Set { i, x } => {
            let mut z = a.to_vec();
            z[*i] = *x;
            Val(self::Val::V(z), 0.0)
        }
        VOp::Dot => {
            if a.len() != b.len() {
                Panic
            } else {
                let sc: f64 = a.iter().zip(b).map(|(x, y)| (x * y).abs()).sum();
                Val(self::Val::S(oracle::dot(a, b)), 4.0 * (n + 1.0) * eps * sc)
            }
        }
        VOp::ApproxEq { tol } => {
            if a.len() != b.len() {
                Val(self::Val::B(false), 0.0)
            } else {
                let d = a.iter().zip(b).fold(0.0f64, |m, (x, y)| m.max((x - y).abs()));
                let bmax = b.iter().fold(0.0f64, |m, x| m.max(x.abs()));
                let slack = 4.0 * eps * (amax + bmax);
                if d <= tol - slack {
                    Val(self::Val::B(true), 0.0)
                } else if d > tol + slack {
                    Val(self::Val::B(false), 0.0)
                } else {
                    AnyBool
                }
            }
        }
        VOp::Norm2 => {
            let v = oracle::norm2(a);
            Val(self::Val::S(v), 4.0 * (n + 2.0) * eps * v)
        }
        VOp::Norm { p } => {
            let v = if p.is_infinite() && *p > 0.0 {
                amax
            } else if p.is_infinite() {
                a.iter().fold(f64::INFINITY, |m, x| m.min(x.abs()))
            } else {
                a.iter().map(|x| x.abs().powf(*p)).sum::<f64>().powf(1.0 / p)
            };
            Val(self::Val::S(v), if p.is_infinite() { 0.0 } else { 16.0 * (n + 2.0) * eps * v })
        }
        VOp::Elem(k, i, x) => {
            let mut z = a.to_vec();
            z[*i] = arith(*k, a[*i], *x);
            let tol = 2.0 * eps * z[*i].abs();
            Val(self::Val::V(z), tol)
        }
        VOp::Scalar(k, x) => {
            let z: Vec<f64> = a.iter().map(|v| arith(*k, *v, *x)).collect();
            let tol = 2.0 * eps * z.iter().fold(0.0f64, |m, x| m.max(x.abs()));
            Val(self::Val::V(z), tol)
        }
        VOp::Bin(k) => {
            if a.len() != b.len() {
                Panic
            } else {
                let z: Vec<f64> = a.iter().zip(b).map(|(x, y)| arith(*k, *x, *y)).collect();
                let tol = 2.0 * eps * z.iter().fold(0.0f64, |m, x| m.max(x.abs()));
                Val(self::Val::V(z), tol)
            }
        }
        VOp::Sum => {
            let sc: f64 = a.iter().map(|x| x.abs()).sum();
            Val(self::Val::S(a.iter().sum()), 2.0 * n * eps * sc)
        }
        VOp::Unique => {
            let mut v = a.to_vec();
            v.sort_by(|x, y| x.partial_cmp(y).unwrap());
            v.dedup();
            Val(self::Val::V(v), 0.0)
        }
        VOp::Mean => {
            let sc: f64 = a.iter().map(|x| x.abs()).sum::<f64>() / n;
            Val(self::Val::S(oracle::mean(a)), 2.0 * (n + 1.0) * eps * sc)
        }
        VOp::Var | VOp::Std => Unspecified,
        VOp::CopyFrom => {
            if a.len() != b.len() {
                Panic
            } else {
                Val(self::Val::V(b.to_vec()), 0.0)
            }
        }
        VOp::Take { idx } => Val(self::Val::V(idx.iter().map(|i| a[*i]).collect()), 0.0),
        VOp::Zeros => Val(self::Val::V(vec![0.0; a.len()]), 0.0),
        VOp::Ones => Val(self::Val::V(vec![1.0; a.len()]), 0.0),
        VOp::Fill { x } => Val(self::Val::V(vec![*x; a.len()]), 0.0),
    }
}
