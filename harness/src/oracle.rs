//! Reference implementations (f64, row-major, no smartcore code).
use serde::{Deserialize, Serialize};

#[derive(Clone, Debug, PartialEq, Serialize, Deserialize)]
pub struct Mat {
    pub r: usize,
    pub c: usize,
    pub d: Vec<f64>, // row-major
}

impl Mat {
    pub fn zeros(r: usize, c: usize) -> Mat {
        Mat { r, c, d: vec![0.0; r * c] }
    }
    pub fn eye(n: usize) -> Mat {
        let mut m = Mat::zeros(n, n);
        for i in 0..n {
            m.d[i * n + i] = 1.0;
        }
        m
    }
    pub fn from_rows(rows: &[Vec<f64>]) -> Mat {
        let r = rows.len();
        let c = if r > 0 { rows[0].len() } else { 0 };
        let mut d = Vec::with_capacity(r * c);
        for row in rows {
            assert_eq!(row.len(), c);
            d.extend_from_slice(row);
        }
        Mat { r, c, d }
    }
    pub fn from_fn(r: usize, c: usize, f: impl Fn(usize, usize) -> f64) -> Mat {
        let mut m = Mat::zeros(r, c);
        for i in 0..r {
            for j in 0..c {
                m.d[i * c + j] = f(i, j);
            }
        }
        m
    }
    pub fn diag(v: &[f64]) -> Mat {
        let n = v.len();
        let mut m = Mat::zeros(n, n);
        for i in 0..n {
            m.d[i * n + i] = v[i];
        }
        m
    }
    #[inline]
    pub fn at(&self, i: usize, j: usize) -> f64 {
        self.d[i * self.c + j]
    }
    #[inline]
    pub fn set(&mut self, i: usize, j: usize, v: f64) {
        self.d[i * self.c + j] = v;
    }
    pub fn row(&self, i: usize) -> Vec<f64> {
        self.d[i * self.c..(i + 1) * self.c].to_vec()
    }
    pub fn col(&self, j: usize) -> Vec<f64> {
        (0..self.r).map(|i| self.at(i, j)).collect()
    }
    pub fn rows(&self) -> Vec<Vec<f64>> {
        (0..self.r).map(|i| self.row(i)).collect()
    }
    pub fn t(&self) -> Mat {
        Mat::from_fn(self.c, self.r, |i, j| self.at(j, i))
    }
    pub fn mul(&self, o: &Mat) -> Mat {
        assert_eq!(self.c, o.r, "oracle matmul shape");
        let mut m = Mat::zeros(self.r, o.c);
        for i in 0..self.r {
            for k in 0..self.c {
                let a = self.at(i, k);
                if a == 0.0 {
                    continue;
                }
                for j in 0..o.c {
                    m.d[i * o.c + j] += a * o.at(k, j);
                }
            }
        }
        m
    }
    pub fn mulv(&self, v: &[f64]) -> Vec<f64> {
        assert_eq!(self.c, v.len());
        (0..self.r)
            .map(|i| (0..self.c).map(|j| self.at(i, j) * v[j]).sum())
            .collect()
    }
    pub fn sub(&self, o: &Mat) -> Mat {
        assert_eq!((self.r, self.c), (o.r, o.c));
        Mat { r: self.r, c: self.c, d: self.d.iter().zip(&o.d).map(|(a, b)| a - b).collect() }
    }
    pub fn add(&self, o: &Mat) -> Mat {
        assert_eq!((self.r, self.c), (o.r, o.c));
        Mat { r: self.r, c: self.c, d: self.d.iter().zip(&o.d).map(|(a, b)| a + b).collect() }
    }
    pub fn scale(&self, s: f64) -> Mat {
        Mat { r: self.r, c: self.c, d: self.d.iter().map(|a| a * s).collect() }
    }
    pub fn map(&self, f: impl Fn(f64) -> f64) -> Mat {
        Mat { r: self.r, c: self.c, d: self.d.iter().map(|a| f(*a)).collect() }
    }
    pub fn fro(&self) -> f64 {
        // scaled to avoid overflow/underflow
        let mx = self.max_abs();
        if mx == 0.0 || !mx.is_finite() {
            return mx;
        }
        let s: f64 = self.d.iter().map(|a| (a / mx) * (a / mx)).sum();
        mx * s.sqrt()
    }
    pub fn max_abs(&self) -> f64 {
        self.d.iter().fold(0.0, |m, a| if a.abs() > m || a.is_nan() { a.abs() } else { m })
    }
    pub fn all_finite(&self) -> bool {
        self.d.iter().all(|a| a.is_finite())
    }
    pub fn abs(&self) -> Mat {
        self.map(|a| a.abs())
    }
    pub fn slice(&self, r0: usize, r1: usize, c0: usize, c1: usize) -> Mat {
        Mat::from_fn(r1 - r0, c1 - c0, |i, j| self.at(r0 + i, c0 + j))
    }
    pub fn col_means(&self) -> Vec<f64> {
        (0..self.c)
            .map(|j| (0..self.r).map(|i| self.at(i, j)).sum::<f64>() / self.r as f64)
            .collect()
    }
    /// two-pass population (ddof=0) or sample (ddof=1) variance per column
    pub fn col_vars(&self, ddof: usize) -> Vec<f64> {
        let mu = self.col_means();
        (0..self.c)
            .map(|j| {
                (0..self.r).map(|i| (self.at(i, j) - mu[j]).powi(2)).sum::<f64>()
                    / (self.r - ddof) as f64
            })
            .collect()
    }
    pub fn hstack(&self, o: &Mat) -> Mat {
        assert_eq!(self.r, o.r);
        Mat::from_fn(self.r, self.c + o.c, |i, j| if j < self.c { self.at(i, j) } else { o.at(i, j - self.c) })
    }
    pub fn vstack(&self, o: &Mat) -> Mat {
        assert_eq!(self.c, o.c);
        Mat::from_fn(self.r + o.r, self.c, |i, j| if i < self.r { self.at(i, j) } else { o.at(i - self.r, j) })
    }
}

pub fn dot(a: &[f64], b: &[f64]) -> f64 {
    assert_eq!(a.len(), b.len());
    a.iter().zip(b).map(|(x, y)| x * y).sum()
}
pub fn norm2(a: &[f64]) -> f64 {
    let mx = a.iter().fold(0.0f64, |m, x| m.max(x.abs()));
    if mx == 0.0 || !mx.is_finite() {
        return mx;
    }
    mx * a.iter().map(|x| (x / mx) * (x / mx)).sum::<f64>().sqrt()
}
pub fn mean(a: &[f64]) -> f64 {
    a.iter().sum::<f64>() / a.len() as f64
}
/// two-pass population variance
pub fn var_pop(a: &[f64]) -> f64 {
    let m = mean(a);
    // corrected two-pass
    let n = a.len() as f64;
    let s2: f64 = a.iter().map(|x| (x - m) * (x - m)).sum();
    let s1: f64 = a.iter().map(|x| x - m).sum();
    (s2 - s1 * s1 / n) / n
}

/// Orthogonal n x n matrix as a product of Householder reflectors built from `vs`
/// (each of length n; zero vectors are skipped).
pub fn householder_orth(n: usize, vs: &[Vec<f64>]) -> Mat {
    let mut q = Mat::eye(n);
    for v in vs {
        let nv = dot(v, v);
        if nv == 0.0 || v.len() != n {
            continue;
        }
        // q = q * (I - 2 v v^T / (v^T v))
        for i in 0..n {
            let mut s = 0.0;
            for k in 0..n {
                s += q.at(i, k) * v[k];
            }
            let f = 2.0 * s / nv;
            for k in 0..n {
                q.d[i * n + k] -= f * v[k];
            }
        }
    }
    q
}

/// Cyclic Jacobi eigen-solver for a symmetric matrix: returns eigenvalues (descending)
/// and the matching orthonormal eigenvectors as columns.
pub fn jacobi_eig(a: &Mat) -> (Vec<f64>, Mat) {
    let n = a.r;
    assert_eq!(a.r, a.c);
    let mut m = a.clone();
    let mut v = Mat::eye(n);
    for _sweep in 0..100 {
        let mut off = 0.0;
        for i in 0..n {
            for j in 0..n {
                if i != j {
                    off += m.at(i, j) * m.at(i, j);
                }
            }
        }
        let tot = m.fro();
        if off.sqrt() <= 1e-15 * tot || tot == 0.0 {
            break;
        }
        for p in 0..n {
            for q in p + 1..n {
                let apq = m.at(p, q);
                if apq == 0.0 {
                    continue;
                }
                let app = m.at(p, p);
                let aqq = m.at(q, q);
                let theta = (aqq - app) / (2.0 * apq);
                let t = if theta >= 0.0 {
                    1.0 / (theta + (1.0 + theta * theta).sqrt())
                } else {
                    -1.0 / (-theta + (1.0 + theta * theta).sqrt())
                };
                let c = 1.0 / (1.0 + t * t).sqrt();
                let s = t * c;
                for k in 0..n {
                    let akp = m.at(k, p);
                    let akq = m.at(k, q);
                    m.set(k, p, c * akp - s * akq);
                    m.set(k, q, s * akp + c * akq);
                }
                for k in 0..n {
                    let apk = m.at(p, k);
                    let aqk = m.at(q, k);
                    m.set(p, k, c * apk - s * aqk);
                    m.set(q, k, s * apk + c * aqk);
                }
                for k in 0..n {
                    let vkp = v.at(k, p);
                    let vkq = v.at(k, q);
                    v.set(k, p, c * vkp - s * vkq);
                    v.set(k, q, s * vkp + c * vkq);
                }
            }
        }
    }
    let mut idx: Vec<usize> = (0..n).collect();
    idx.sort_by(|&i, &j| m.at(j, j).partial_cmp(&m.at(i, i)).unwrap_or(std::cmp::Ordering::Equal));
    let vals: Vec<f64> = idx.iter().map(|&i| m.at(i, i)).collect();
    let vecs = Mat::from_fn(n, n, |i, j| v.at(i, idx[j]));
    (vals, vecs)
}

/// Gaussian elimination with partial pivoting; returns None for (numerically) singular input.
pub fn solve(a: &Mat, b: &Mat) -> Option<Mat> {
    let n = a.r;
    assert_eq!(a.r, a.c);
    assert_eq!(b.r, n);
    let mut m = a.clone();
    let mut x = b.clone();
    for k in 0..n {
        let mut p = k;
        for i in k + 1..n {
            if m.at(i, k).abs() > m.at(p, k).abs() {
                p = i;
            }
        }
        if m.at(p, k) == 0.0 {
            return None;
        }
        if p != k {
            for j in 0..n {
                let t = m.at(k, j);
                m.set(k, j, m.at(p, j));
                m.set(p, j, t);
            }
            for j in 0..x.c {
                let t = x.at(k, j);
                x.set(k, j, x.at(p, j));
                x.set(p, j, t);
            }
        }
        for i in k + 1..n {
            let f = m.at(i, k) / m.at(k, k);
            if f == 0.0 {
                continue;
            }
            for j in k..n {
                let v = m.at(i, j) - f * m.at(k, j);
                m.set(i, j, v);
            }
            for j in 0..x.c {
                let v = x.at(i, j) - f * x.at(k, j);
                x.set(i, j, v);
            }
        }
    }
    for j in 0..x.c {
        for i in (0..n).rev() {
            let mut s = x.at(i, j);
            for k in i + 1..n {
                s -= m.at(i, k) * x.at(k, j);
            }
            x.set(i, j, s / m.at(i, i));
        }
    }
    Some(x)
}

/// max |A^T A - I| over the first k columns
pub fn orth_defect(a: &Mat, k: usize) -> f64 {
    let mut worst: f64 = 0.0;
    for i in 0..k {
        for j in i..k {
            let mut s = 0.0;
            for r in 0..a.r {
                s += a.at(r, i) * a.at(r, j);
            }
            let e = if i == j { (s - 1.0).abs() } else { s.abs() };
            if e > worst || e.is_nan() {
                worst = e;
            }
        }
    }
    worst
}

/// Singular values by one-sided (Hestenes) Jacobi: accurate to high *relative* precision
/// even for ill-conditioned input. Returned in non-increasing order.
pub fn singular_values(a: &Mat) -> Vec<f64> {
    let (m, n) = (a.r, a.c);
    let mut u = if m >= n { a.clone() } else { a.t() };
    let (m, n) = (m.max(n), m.min(n));
    for _sweep in 0..60 {
        let mut rotated = false;
        for p in 0..n {
            for q in p + 1..n {
                let (mut alpha, mut beta, mut gamma) = (0.0, 0.0, 0.0);
                for i in 0..m {
                    alpha += u.at(i, p) * u.at(i, p);
                    beta += u.at(i, q) * u.at(i, q);
                    gamma += u.at(i, p) * u.at(i, q);
                }
                if gamma == 0.0 || gamma.abs() <= 1e-15 * (alpha * beta).sqrt() {
                    continue;
                }
                rotated = true;
                let zeta = (beta - alpha) / (2.0 * gamma);
                let t = zeta.signum() / (zeta.abs() + (1.0 + zeta * zeta).sqrt());
                let t = if zeta == 0.0 { 1.0 } else { t };
                let c = 1.0 / (1.0 + t * t).sqrt();
                let s = c * t;
                for i in 0..m {
                    let (x, y) = (u.at(i, p), u.at(i, q));
                    u.set(i, p, c * x - s * y);
                    u.set(i, q, s * x + c * y);
                }
            }
        }
        if !rotated {
            break;
        }
    }
    let mut sv: Vec<f64> = (0..n).map(|j| norm2(&u.col(j))).collect();
    sv.sort_by(|a, b| b.partial_cmp(a).unwrap());
    sv
}
