#[macro_use]
pub mod engine;
pub mod fuzz;
pub mod gen;
pub mod matops;
pub mod oracle;
pub mod props;
