use scverif::engine::{install_panic_hook, replay_file, run_property, Tier};
use scverif::props;

fn main() {
    let args: Vec<String> = std::env::args().collect();
    install_panic_hook();
    let seed: u64 = std::env::var("VERIF_SEED").ok().and_then(|s| s.parse().ok()).unwrap_or(0);
    let code = match args.get(1).map(|s| s.as_str()) {
        Some("run") => {
            let id = args.get(2).expect("property id");
            let tier = match args.get(3).map(|s| s.as_str()).or(std::env::var("VERIF_TIER").ok().as_deref().map(|_| "env")) {
                Some("thorough") => Tier::Thorough,
                Some("env") => {
                    if std::env::var("VERIF_TIER").unwrap() == "thorough" {
                        Tier::Thorough
                    } else {
                        Tier::Quick
                    }
                }
                _ => Tier::Quick,
            };
            match props::by_id(id) {
                Some(p) => run_property(p, tier, seed),
                None => {
                    eprintln!("unknown property {}", id);
                    2
                }
            }
        }
        Some("replay") => replay_file(props::all(), args.get(2).expect("path")),
        Some("fuzz-replay") => {
            // fuzz-replay <target> <crash file>: decode a libFuzzer input, write the replay file, print the verdict
            let target = args.get(2).expect("target");
            let data = std::fs::read(args.get(3).expect("file")).expect("read crash file");
            match scverif::fuzz::run(target, &data) {
                Ok(()) => {
                    println!("fuzz input passes: target={}", target);
                    0
                }
                Err((case, f)) => {
                    let (prop, sub) = scverif::fuzz::target_home(target);
                    let root = std::env::var("VERIF_ROOT").unwrap_or("/verif".into());
                    let dir = format!("{}/replays/found", root);
                    let _ = std::fs::create_dir_all(&dir);
                    let path = format!("{}/{}-{}-fuzz-{}.json", dir, prop, sub, std::path::Path::new(args.get(3).unwrap()).file_name().unwrap().to_string_lossy());
                    let body = serde_json::json!({"property": prop, "sub": sub, "sig": f.sig, "msg": f.msg, "seed": -1, "case": case, "found_by": format!("libFuzzer target {}", target)});
                    let _ = std::fs::write(&path, serde_json::to_string_pretty(&body).unwrap());
                    println!("VIOLATION property={} replay={}", prop, path);
                    println!("  sub={} sig={} :: {}", sub, f.sig, f.msg.chars().take(800).collect::<String>());
                    1
                }
            }
        }
        Some("list") => {
            for p in props::all() {
                println!("{} {}", p.id, p.subs.iter().map(|s| s.name()).collect::<Vec<_>>().join(","));
            }
            0
        }
        _ => {
            eprintln!("usage: scverif run <ID> quick|thorough | replay <file> | list");
            2
        }
    };
    std::process::exit(code);
}
