use scverif::engine::{install_panic_hook, replay_file, run_property, Tier};
use scverif::props;

fn main() {
    let args: Vec<String> = std::env::args().collect();
    install_panic_hook();
    let seed: u64 = std::env::var("VERIF_SEED").ok().and_then(|s| s.parse().ok()).unwrap_or(0);
    let code = match args.get(1).map(|s| s.as_str()) {
        Some("run") => {
            let id = args.get(2).expect("property id");
            let tier = match args.get(3).map(|s| s.as_str()).or(std::env::var("VERIF_TIER").ok().as_deref().map(|_| "env")) {
                Some("thorough") => Tier::Thorough,
                Some("env") => {
                    if std::env::var("VERIF_TIER").unwrap() == "thorough" {
                        Tier::Thorough
                    } else {
                        Tier::Quick
                    }
                }
                _ => Tier::Quick,
            };
            match props::by_id(id) {
                Some(p) => run_property(p, tier, seed),
                None => {
                    eprintln!("unknown property {}", id);
                    2
                }
            }
        }
        Some("replay") => replay_file(props::all(), args.get(2).expect("path")),
        Some("list") => {
            for p in props::all() {
                println!("{} {}", p.id, p.subs.iter().map(|s| s.name()).collect::<Vec<_>>().join(","));
            }
            0
        }
        _ => {
            eprintln!("usage: scverif run <ID> quick|thorough | replay <file> | list");
            2
        }
    };
    std::process::exit(code);
}
