//! Constructive generators shared by the property modules.
use crate::oracle::{householder_orth, Mat};
use proptest::collection::vec;
use proptest::prelude::*;

/// dyadic rational in [-1, 1] with 10 fractional bits (exactly representable in f32)
pub fn unit() -> impl Strategy<Value = f64> + Clone {
    (-1024i32..=1024).prop_map(|v| v as f64 / 1024.0)
}
/// dyadic rational in (0, 1]
pub fn unit_pos() -> impl Strategy<Value = f64> + Clone {
    (1i32..=1024).prop_map(|v| v as f64 / 1024.0)
}
/// small integer as f64
pub fn small_int(lo: i32, hi: i32) -> impl Strategy<Value = f64> + Clone {
    (lo..=hi).prop_map(|v| v as f64)
}
/// 10^k for k uniform in [lo, hi] (real exponent, dyadic steps of 1/8)
pub fn pow10(lo: i32, hi: i32) -> impl Strategy<Value = f64> + Clone {
    (lo * 8..=hi * 8).prop_map(|e| 10f64.powf(e as f64 / 8.0))
}
/// 2^k
pub fn pow2(lo: i32, hi: i32) -> impl Strategy<Value = f64> + Clone {
    (lo..=hi).prop_map(|e| 2f64.powi(e))
}

pub fn unit_vec(n: usize) -> impl Strategy<Value = Vec<f64>> + Clone {
    vec(unit(), n)
}

pub fn unit_mat(r: usize, c: usize) -> impl Strategy<Value = Mat> + Clone {
    vec(unit(), r * c).prop_map(move |d| Mat { r, c, d })
}

pub fn int_mat(r: usize, c: usize, lo: i32, hi: i32) -> impl Strategy<Value = Mat> + Clone {
    vec(small_int(lo, hi), r * c).prop_map(move |d| Mat { r, c, d })
}

/// random orthogonal n x n matrix (product of up to 3 Householder reflectors built from
/// dyadic vectors, times a signed permutation)
pub fn orth(n: usize) -> impl Strategy<Value = Mat> + Clone {
    (
        vec(unit_vec(n), 0..=3usize.min(n)),
        Just((0..n).collect::<Vec<usize>>()).prop_shuffle(),
        vec(any::<bool>(), n),
    )
        .prop_map(move |(vs, perm, signs)| {
            let q = householder_orth(n, &vs);
            Mat::from_fn(n, n, |i, j| {
                let v = q.at(i, perm[j]);
                if signs[j] {
                    -v
                } else {
                    v
                }
            })
        })
}

#[derive(Clone, Copy, Debug)]
pub enum Spectrum {
    LogUniform,
    Graded,
    Clustered,
    Flat,
}

/// k singular values in (0,1], largest = 1, smallest >= 10^-logcond, non-increasing
pub fn spectrum(k: usize, logcond: f64) -> impl Strategy<Value = Vec<f64>> + Clone {
    (0usize..4, vec(0u32..=1000, k), 0u32..=1000).prop_map(move |(cls, u, span)| {
        let span = logcond * span as f64 / 1000.0;
        let mut e: Vec<f64> = match cls {
            0 => u.iter().map(|x| *x as f64 / 1000.0 * span).collect(),
            1 => (0..k)
                .map(|i| if k > 1 { span * i as f64 / (k - 1) as f64 } else { 0.0 })
                .collect(),
            2 => u.iter().map(|x| if *x < 500 { 0.0 } else { span }).collect(),
            _ => vec![0.0; k],
        };
        e.sort_by(|a, b| a.partial_cmp(b).unwrap());
        if !e.is_empty() {
            let e0 = e[0];
            for x in e.iter_mut() {
                *x -= e0;
            }
        }
        e.iter().map(|x| 10f64.powf(-x)).collect()
    })
}

/// m x n matrix with prescribed singular values `s` (len = min(m,n)): U diag(s) V^T
pub fn with_singular_values(m: usize, n: usize, s: Vec<f64>) -> impl Strategy<Value = Mat> + Clone {
    (orth(m), orth(n)).prop_map(move |(u, v)| {
        let k = m.min(n);
        let mut sm = Mat::zeros(m, n);
        for i in 0..k {
            sm.set(i, i, s[i]);
        }
        u.mul(&sm).mul(&v.t())
    })
}

/// well-conditioned m x n matrix, cond <= 10^logcond, norm ~ 1
pub fn cond_mat(m: usize, n: usize, logcond: f64) -> BoxedStrategy<Mat> {
    spectrum(m.min(n), logcond)
        .prop_flat_map(move |s| with_singular_values(m, n, s))
        .boxed()
}

/// symmetric matrix Q diag(l) Q^T
pub fn sym_from_eigs(l: Vec<f64>) -> impl Strategy<Value = Mat> + Clone {
    let n = l.len();
    orth(n).prop_map(move |q| {
        let a = q.mul(&Mat::diag(&l)).mul(&q.t());
        // symmetrise exactly
        Mat::from_fn(n, n, |i, j| 0.5 * (a.at(i, j) + a.at(j, i)))
    })
}

/// monotone index mapping (shrinks towards 0)
pub fn idx(sel: u16, len: usize) -> usize {
    ((sel as usize) * len) >> 16
}

/// round every entry to f32 and back
pub fn to_f32_grid(m: &Mat) -> Mat {
    m.map(|x| x as f32 as f64)
}

/// "arbitrary numeric label values": a shuffled base set of five distinct values, taken as it is,
/// rescaled exactly by 2^e (down to ~1e-21, up to ~1e12), or replaced by five consecutive
/// floating-point numbers (labels one ulp apart). All five values are pairwise distinct.
pub fn label_values(base: [f64; 5]) -> BoxedStrategy<Vec<f64>> {
    (Just(base.to_vec()).prop_shuffle(), prop_oneof![3 => Just((0u8, 0i32)), 1 => (-70i32..=40).prop_map(|e| (1u8, e)), 1 => (0i32..4).prop_map(|b| (2u8, b))])
        .prop_map(|(mut vals, kind)| {
            match kind {
                (1, e) => vals.iter_mut().for_each(|v| *v *= 2f64.powi(e)),
                (2, b) => {
                    let start = [0.3f64, 1.0, -7.5, 1e10][b as usize];
                    for (c, v) in vals.iter_mut().enumerate() {
                        *v = f64::from_bits(start.to_bits() + c as u64);
                    }
                }
                _ => {}
            }
            vals
        })
        .boxed()
}
