//! Byte-level entry points for the coverage-guided fuzz targets (/verif/fuzz). Every target decodes the bytes
//! into the same `Case` type as the proptest strategy (small lattice-valued data, so byte mutations are
//! geometric / structural mutations) and calls the same `check` function, i.e. the same oracle.
use crate::engine::{Ctx, Fail};
use crate::oracle::Mat;
use crate::props::{c03, c04, c05, c12, c13, c15, c18};
use serde_json::Value;

pub struct Bytes<'a> {
    d: &'a [u8],
    i: usize,
}
impl<'a> Bytes<'a> {
    pub fn new(d: &'a [u8]) -> Self {
        Bytes { d, i: 0 }
    }
    /// next byte; zeros once the input is exhausted (so every input decodes)
    pub fn u8(&mut self) -> u8 {
        let v = self.d.get(self.i).copied().unwrap_or(0);
        self.i += 1;
        v
    }
    pub fn below(&mut self, n: usize) -> usize {
        self.u8() as usize % n.max(1)
    }
    pub fn u16(&mut self) -> u16 {
        (self.u8() as u16) << 8 | self.u8() as u16
    }
    pub fn left(&self) -> usize {
        self.d.len().saturating_sub(self.i)
    }
}

pub const TARGETS: [&str; 7] = ["covertree", "dbscan", "tree", "bbd", "onehot", "dense_ops", "auc_sort"];

/// (property, sub-check) a target belongs to
pub fn target_home(t: &str) -> (&'static str, &'static str) {
    match t {
        "covertree" => ("C04", "search"),
        "dbscan" => ("C13", "dbscan"),
        "tree" => ("C05", "tree"),
        "bbd" => ("C12", "bbd_assignment"),
        "onehot" => ("C18", "onehot"),
        "dense_ops" => ("C03", "op_sequences"),
        _ => ("C15", "auc"),
    }
}

fn lattice_points(b: &mut Bytes, n: usize, d: usize, modulo: usize) -> Vec<Vec<f64>> {
    (0..n).map(|_| (0..d).map(|_| b.below(modulo) as f64).collect()).collect()
}

/// Decodes and checks. Err carries the decoded case (as JSON, in the replay-file layout) and the failure.
pub fn run(target: &str, data: &[u8]) -> Result<(), (Value, Fail)> {
    let mut b = Bytes::new(data);
    let mut ctx = Ctx::default();
    macro_rules! go {
        ($case:expr, $check:path) => {{
            let case = $case;
            match crate::engine::catch(|| $check(&case, &mut ctx)) {
                Ok(Ok(())) => Ok(()),
                Ok(Err(f)) => Err((serde_json::to_value(&case).unwrap_or(Value::Null), f)),
                Err(p) => Err((serde_json::to_value(&case).unwrap_or(Value::Null), Fail { sig: "uncaught-panic".into(), msg: p })),
            }
        }};
    }
    match target {
        "covertree" => {
            let d = 1 + b.below(3);
            let n = 1 + b.below(24);
            let metric = [c04::Metric::Euclidian, c04::Metric::Manhattan, c04::Metric::Minkowski(3), c04::Metric::Euclidian][b.below(4)];
            let modulo = 2 + b.below(5);
            let data = lattice_points(&mut b, n, d, modulo);
            let nq = 1 + b.below(4);
            let queries = lattice_points(&mut b, nq, d, modulo + 1);
            let ksel = (0..4).map(|_| b.u16()).collect();
            let rsel = (0..8).map(|_| b.u16()).collect();
            go!(c04::SearchCase { class: "fuzz".into(), metric, data, queries, ksel, rsel }, c04::check_search)
        }
        "dbscan" => {
            let d = 1 + b.below(2);
            let n = 1 + b.below(20);
            let eps = [1.0, 2f64.sqrt(), 2.0, 5f64.sqrt(), 1.5, 3.0][b.below(6)];
            let min_samples = 1 + b.below(5);
            let metric = if b.below(4) == 0 { c04::Metric::Manhattan } else { c04::Metric::Euclidian };
            let modulo = 3 + b.below(6);
            let data = lattice_points(&mut b, n, d, modulo);
            let queries = lattice_points(&mut b, 3, d, modulo + 2);
            go!(c13::DbscanCase { class: "fuzz".into(), metric, data, eps, min_samples, queries }, c13::check_dbscan)
        }
        "tree" => {
            let p = 1 + b.below(3);
            let n = 2 + b.below(22);
            let classifier = b.below(2) == 0;
            let criterion = b.below(3) as u8;
            let max_depth = match b.below(4) {
                0 => Some(1 + b.below(4) as u16),
                _ => None,
            };
            let min_samples_leaf = 1 + b.below(3);
            let min_samples_split = b.below(5);
            let distinct = b.below(3) == 0;
            let x: Vec<Vec<f64>> = if distinct {
                // per-feature permutations driven by the bytes (Fisher-Yates)
                let mut cols: Vec<Vec<usize>> = vec![];
                for _ in 0..p {
                    let mut perm: Vec<usize> = (0..n).collect();
                    for i in (1..n).rev() {
                        let j = b.below(i + 1);
                        perm.swap(i, j);
                    }
                    cols.push(perm);
                }
                (0..n).map(|i| (0..p).map(|j| cols[j][i] as f64 * 0.5).collect()).collect()
            } else {
                lattice_points(&mut b, n, p, 4)
            };
            let mut y: Vec<f64> = (0..n).map(|_| if classifier { [-7.0, 0.0, 3.0][b.below(3)] } else { b.below(5) as f64 - 2.0 }).collect();
            if classifier && y.iter().all(|v| *v == y[0]) {
                y[n - 1] = if y[0] == 3.0 { 0.0 } else { 3.0 };
            }
            let queries = lattice_points(&mut b, 3, p, 5);
            go!(c05::TreeCase { class: if distinct { "distinct".into() } else { "small-integer".into() }, x, y, classifier, criterion, max_depth, min_samples_leaf, min_samples_split, queries, pow2: (b.below(9) as i32) - 4 }, c05::check_tree)
        }
        "bbd" => {
            let d = 1 + b.below(3);
            let n = 2 + b.below(30);
            let k = 1 + b.below(6);
            let data = lattice_points(&mut b, n, d, 4);
            let centroids: Vec<Vec<f64>> = (0..k).map(|_| (0..d).map(|_| b.below(9) as f64 * 0.5 - 0.5).collect()).collect();
            go!(c12::BbdCase { class: "fuzz".into(), data, centroids, centroid_class: "fuzz-half-integers".into() }, c12::check_bbd)
        }
        "onehot" => {
            let p = 1 + b.below(7);
            let n = 1 + b.below(6);
            let mask = b.u8();
            let mut x = Mat::zeros(n, p);
            let mut cat_idx = vec![];
            for j in 0..p {
                let is_cat = mask & (1 << j) != 0;
                if is_cat {
                    cat_idx.push(j);
                }
                for i in 0..n {
                    let v = b.below(4);
                    x.set(i, j, if is_cat { [7.0, 3.0, 11.0, 3.0][v] } else { v as f64 + 0.5 });
                }
            }
            if b.below(2) == 1 {
                cat_idx.reverse();
            }
            go!(c18::OneHotCase { f32: b.below(4) == 0, x, cat_idx }, c18::check_onehot)
        }
        "dense_ops" => {
            let (r, c) = (1 + b.below(4), 1 + b.below(4));
            let mk = |b: &mut Bytes, r: usize, c: usize| Mat::from_fn(r, c, |_, _| 0.0).map(|_| 0.0).d.iter().map(|_| b.below(7) as f64 - 3.0).collect::<Vec<f64>>();
            let p0 = Mat { r, c, d: mk(&mut b, r, c) };
            let p1 = Mat { r, c, d: mk(&mut b, r, c) };
            let p2 = Mat { r: c, c: r, d: mk(&mut b, c, r) };
            let mut ops = vec![];
            while b.left() > 0 && ops.len() < 24 {
                let (a, o) = ((b.u8() % 3), (b.u8() % 3));
                let op = match b.below(17) {
                    0 => c03::SeqOp::Transpose(a),
                    1 => c03::SeqOp::AddMut(a, o),
                    2 => c03::SeqOp::SubMut(a, o),
                    3 => c03::SeqOp::MulMut(a, o),
                    4 => c03::SeqOp::Matmul(a, o),
                    5 => c03::SeqOp::HStack(a, o),
                    6 => c03::SeqOp::VStack(a, o),
                    7 => c03::SeqOp::ScalarMul(a, (b.below(7) as i8) - 3),
                    8 => c03::SeqOp::ScalarAdd(a, (b.below(7) as i8) - 3),
                    9 => c03::SeqOp::Neg(a),
                    10 => c03::SeqOp::Abs(a),
                    11 => c03::SeqOp::Set(a, b.u16(), b.u16(), (b.below(19) as i8) - 9),
                    12 => c03::SeqOp::CopyFrom(a, o),
                    13 => c03::SeqOp::Reshape(a, b.u16()),
                    14 => c03::SeqOp::SliceRows(a, b.u16(), b.u16()),
                    15 => c03::SeqOp::TakeCols(a, vec![b.u16(), b.u16()]),
                    _ => c03::SeqOp::Clone(a, o),
                };
                ops.push(op);
            }
            go!(c03::SeqCase { pool: vec![p0, p1, p2], ops }, c03::check_seq)
        }
        _ => {
            // auc_sort: exercises quick_argsort_mut on adversarial tie patterns and lengths around its cut-offs
            let n = 1 + b.below(40);
            let levels = 1 + b.below(9);
            let y_true: Vec<u8> = (0..n).map(|_| (b.u8() & 1)).collect();
            let score: Vec<f64> = (0..n).map(|_| b.below(levels) as f64 / 8.0).collect();
            go!(c15::AucCase { y_true, score }, c15::check_auc)
        }
    }
}
