//! C08 — Lasso and elastic net terminate near the optimum of their stated objective.
use crate::engine::*;
use crate::gen::*;
use crate::matops::*;
use crate::oracle::{self, Mat};
use proptest::collection::vec;
use proptest::prelude::*;
use serde::{Deserialize, Serialize};
use smartcore::linalg::naive::dense_matrix::DenseMatrix;
use smartcore::linear::elastic_net::{ElasticNet, ElasticNetParameters};
use smartcore::linear::lasso::{Lasso, LassoParameters};

const K: f64 = 10.0;

#[derive(Clone, Debug, Serialize, Deserialize)]
pub struct L1Case {
    pub x: Mat,
    pub y: Vec<f64>,
    /// alpha as a fraction of alpha_max (the smallest alpha with an all-zero solution); > 1 means all zero
    pub alpha_frac: f64,
    pub l1_ratio: f64,
    pub tol: f64,
    pub normalize: bool,
    pub shift: f64,
    pub fresh: Mat,
}

fn strat_l1(t: Tier) -> BoxedStrategy<L1Case> {
    (1usize..=6)
        .prop_flat_map(move |p| (p + 1..=t.pick(40, 60).max(p + 2), Just(p)))
        .prop_flat_map(|(n, p)| {
            (
                prop_oneof![Just(0.5), Just(1.5), Just(3.0)].prop_flat_map(move |lc| cond_mat(n, p, lc)),
                vec(pow10(-1, 2), p),
                vec(unit(), p),
                vec(unit(), p),
                vec(any::<bool>(), p),
                vec(unit(), n),
                (prop_oneof![Just(0.0), unit().prop_map(|x| x * 3.0), (unit_pos(), pow10(3, 6)).prop_map(|(u, s)| (u + 0.5) * s)], pow10(-1, 1)),
                (prop_oneof![3 => (1u32..=1000).prop_map(|x| x as f64 / 1000.0), 1 => Just(1.2), 1 => pow10(-3, 0)], prop_oneof![2 => Just(1.0), 3 => (1u32..=1000).prop_map(|x| x as f64 / 1000.0)], pow10(-6, -3), any::<bool>(), prop_oneof![unit().prop_map(|x| x * 100.0), Just(1e4)], unit_mat(3, p)),
            )
        })
        .prop_map(|(x0, scales, shifts, w, active, noise, (ymean, ysc), (alpha_frac, l1_ratio, tol, normalize, shift, fresh))| {
            let (n, p) = (x0.r, x0.c);
            let nf = (n as f64).sqrt();
            let x = Mat::from_fn(n, p, |i, j| (x0.at(i, j) * nf + shifts[j] * 2.0) * scales[j]);
            let sd: Vec<f64> = x.col_vars(0).iter().map(|v| v.sqrt()).collect();
            let mu = x.col_means();
            // sparse ground truth: inactive coefficients are exactly zero
            let y: Vec<f64> = (0..n).map(|i| ((0..p).map(|j| if active[j] { w[j] * (x.at(i, j) - mu[j]) / sd[j] } else { 0.0 }).sum::<f64>() + 0.3 * noise[i] + 0.01 * (i as f64 - n as f64 / 2.0) / n as f64) * ysc + ymean * ysc).collect();
            // "all y": one case in twelve has a constant target (zero spread: the minimiser is w = 0, b = the constant)
            // (a small dyadic constant, so that its mean over n <= 60 rows is exact and the centred target is exactly 0)
            let y = if noise[0] > 0.5 && noise[n - 1] > 0.33 { vec![[-3.0, 0.0, 0.5, 2.0, 1024.0][(n + p) % 5]; n] } else { y };
            let fresh = Mat::from_fn(3, p, |i, j| mu[j] + fresh.at(i, j) * 2.0 * sd[j]);
            L1Case { x, y, alpha_frac, l1_ratio, tol, normalize, shift, fresh }
        })
        .boxed()
}

/// cyclic coordinate descent on F(w) = ||yc - Z w||^2 + l2 ||w||^2 + l1 ||w||_1, run to a KKT residual of 1e-12
fn coordinate_descent(z: &Mat, yc: &[f64], l1: f64, l2: f64) -> Vec<f64> {
    let (n, p) = (z.r, z.c);
    let mut w = vec![0.0; p];
    let mut r: Vec<f64> = yc.to_vec();
    let zz: Vec<f64> = (0..p).map(|j| (0..n).map(|i| z.at(i, j) * z.at(i, j)).sum()).collect();
    let scale = oracle::norm2(yc).max(1e-300);
    for _ in 0..200000 {
        let mut delta: f64 = 0.0;
        for j in 0..p {
            let rho: f64 = (0..n).map(|i| z.at(i, j) * r[i]).sum::<f64>() + zz[j] * w[j];
            let nw = if rho > l1 / 2.0 { (rho - l1 / 2.0) / (zz[j] + l2) } else if rho < -l1 / 2.0 { (rho + l1 / 2.0) / (zz[j] + l2) } else { 0.0 };
            let d = nw - w[j];
            if d != 0.0 {
                for i in 0..n {
                    r[i] -= z.at(i, j) * d;
                }
                w[j] = nw;
                delta = delta.max(d.abs() * zz[j].sqrt());
            }
        }
        if delta <= 1e-13 * scale {
            break;
        }
    }
    w
}

fn objective(z: &Mat, yc: &[f64], w: &[f64], l1: f64, l2: f64) -> f64 {
    let fit = z.mulv(w);
    let rss: f64 = (0..z.r).map(|i| (yc[i] - fit[i]).powi(2)).sum();
    rss + l2 * w.iter().map(|x| x * x).sum::<f64>() + l1 * w.iter().map(|x| x.abs()).sum::<f64>()
}

struct Fit {
    w: Vec<f64>,
    b: f64,
    pred: Vec<f64>,
}

fn fit_model(case: &L1Case, lasso: bool, y: &[f64], alpha: f64, l1_ratio: f64) -> Result<Result<Fit, String>, String> {
    let xm = <DenseB as Build<f64>>::build(&case.x);
    let fm = <DenseB as Build<f64>>::build(&case.fresh);
    let yv = y.to_vec();
    catch(|| {
        if lasso {
            // builder calls in two orders (a setter that rebuilds from the defaults would lose earlier settings)
            let params = if y.len() % 2 == 0 { LassoParameters::default().with_alpha(alpha).with_tol(case.tol).with_normalize(case.normalize) } else { LassoParameters::default().with_normalize(case.normalize).with_tol(case.tol).with_alpha(alpha) };
            // inherent entry points, or (every other case) the generic traits of smartcore::api
            let via_trait = (y.len() / 2) % 2 == 1;
            let m: Lasso<f64, DenseMatrix<f64>> = if via_trait { sup_fit(&xm, &yv, params) } else { Lasso::fit(&xm, &yv, params) }.map_err(|e| e.to_string())?;
            let pred: Vec<f64> = if via_trait { tr_predict(&m, &fm) } else { m.predict(&fm) }.map_err(|e| e.to_string())?;
            Ok(Fit { w: to_mat(m.coefficients()).d, b: m.intercept(), pred })
        } else {
            let params = if y.len() % 2 == 0 { ElasticNetParameters::default().with_alpha(alpha).with_l1_ratio(l1_ratio).with_tol(case.tol).with_normalize(case.normalize) } else { ElasticNetParameters::default().with_normalize(case.normalize).with_tol(case.tol).with_l1_ratio(l1_ratio).with_alpha(alpha) };
            let via_trait = (y.len() / 2) % 2 == 1;
            let m: ElasticNet<f64, DenseMatrix<f64>> = if via_trait { sup_fit(&xm, &yv, params) } else { ElasticNet::fit(&xm, &yv, params) }.map_err(|e| e.to_string())?;
            let pred: Vec<f64> = if via_trait { tr_predict(&m, &fm) } else { m.predict(&fm) }.map_err(|e| e.to_string())?;
            Ok(Fit { w: to_mat(m.coefficients()).d, b: m.intercept(), pred })
        }
    })
}

fn check_l1(case: &L1Case, ctx: &mut Ctx) -> Result<(), Fail> {
    let x = &case.x;
    let (n, p) = (x.r, x.c);
    let nf = n as f64;
    let mu = x.col_means();
    let sd: Vec<f64> = x.col_vars(0).iter().map(|v| v.sqrt()).collect();
    let z = if case.normalize { Mat::from_fn(n, p, |i, j| (x.at(i, j) - mu[j]) / sd[j]) } else { x.clone() };
    let ybar = oracle::mean(&case.y);
    let yc: Vec<f64> = case.y.iter().map(|v| v - ybar).collect();
    let ycn2 = oracle::dot(&yc, &yc);
    let spread = ycn2.sqrt() / nf.sqrt();
    ctx.label(if case.normalize { "normalize" } else { "raw" });
    ctx.label_if(ybar.abs() > 1e3 * spread, "|mean(y)| >> spread");
    ctx.label_if(case.alpha_frac > 1.0, "alpha > alpha_max");
    // alpha_max for the pure Lasso on this design: n*alpha/2 >= max |Z^T yc|
    let zty = z.t().mulv(&yc);
    let amax = 2.0 * zty.iter().fold(0.0f64, |m, v| m.max(v.abs())) / nf;
    if !(amax > 0.0) {
        // centred target identically zero (constant y): for every alpha >= 0 the minimiser is w = 0 with
        // intercept mean(y) (objective 0); the fit must succeed and say so
        ctx.label("constant-target");
        for lasso in [true, false] {
            let tag = if lasso { "lasso" } else { "elastic_net" };
            let l1_ratio = if lasso { 1.0 } else { case.l1_ratio };
            let f = match fit_model(case, lasso, &case.y, case.alpha_frac, l1_ratio) {
                Err(pn) => return fail(format!("{}/panic", tag), format!("constant target: panicked: {}", pn)),
                Ok(Err(e)) => return fail(format!("{}/err", tag), format!("valid input (constant target {}) rejected: {}", ybar, e)),
                Ok(Ok(f)) => f,
            };
            let wmax = f.w.iter().fold(0.0f64, |m, v| m.max(v.abs()));
            ensure!(wmax == 0.0 || wmax.is_finite() && wmax <= 1e-9 * (1.0 + ybar.abs()) / x.max_abs().max(1e-300), format!("{}/constant-target/coefficients", tag), "constant target {}: coefficients {:?}", ybar, f.w);
            ctx.bound(&format!("{}/constant-target/intercept", tag), (f.b - ybar).abs(), 1e-9 * (1.0 + ybar.abs()))?;
        }
        return Ok(());
    }
    for lasso in [true, false] {
        let tag = if lasso { "lasso" } else { "elastic_net" };
        let l1_ratio = if lasso { 1.0 } else { case.l1_ratio };
        let alpha = case.alpha_frac * amax / l1_ratio;
        let (l1, l2) = (nf * alpha * l1_ratio, nf * alpha * (1.0 - l1_ratio));
        let f = match fit_model(case, lasso, &case.y, alpha, l1_ratio) {
            Err(pn) => return fail(format!("{}/panic", tag), format!("panicked: {}", pn)),
            // (a rejection that comes from the interior-point line search's "non-finite values" exit has its own
            // signature: one such input is a recorded known finding, see known_findings.json)
            Ok(Err(e)) => return fail(if e.contains("non-finite values") { format!("{}/err/line-search-non-finite", tag) } else { format!("{}/err", tag) }, format!("valid input rejected: {}", e)),
            Ok(Ok(f)) => f,
        };
        ensure!(f.w.len() == p && f.w.iter().all(|v| v.is_finite()) && f.b.is_finite(), format!("{}/non-finite", tag), "coefficients {:?} intercept {}", f.w, f.b);
        // predict = X w + b
        for i in 0..case.fresh.r {
            let want: f64 = (0..p).map(|j| case.fresh.at(i, j) * f.w[j]).sum::<f64>() + f.b;
            let sc: f64 = (0..p).map(|j| (case.fresh.at(i, j) * f.w[j]).abs()).sum::<f64>() + f.b.abs();
            ctx.bound(&format!("{}/predict", tag), (f.pred[i] - want).abs(), 1e-12 * sc.max(1e-300))?;
        }
        // intercept identity
        let want_b = if case.normalize { ybar - (0..p).map(|j| f.w[j] * mu[j]).sum::<f64>() } else { ybar };
        let bsc = ybar.abs() + (0..p).map(|j| (f.w[j] * mu[j]).abs()).sum::<f64>();
        ctx.bound(&format!("{}/intercept", tag), (f.b - want_b).abs(), 1e-10 * bsc.max(spread))?;
        // near-optimality of the stated objective
        let wz: Vec<f64> = if case.normalize { (0..p).map(|j| f.w[j] * sd[j]).collect() } else { f.w.clone() };
        let wstar = coordinate_descent(&z, &yc, l1, l2);
        let fstar = objective(&z, &yc, &wstar, l1, l2);
        let fgot = objective(&z, &yc, &wz, l1, l2);
        let support = wstar.iter().filter(|v| **v != 0.0).count();
        if lasso {
            ctx.label(format!("support:{}", if support == 0 { "empty" } else if support == p { "full" } else { "proper-subset" }));
            ctx.nontrivial(support > 0 && support < p);
        }
        ctx.bound(&format!("{}/objective-gap", tag), fgot - fstar, K * case.tol * fstar + 1e-10 * ycn2)?;
        // adding a constant to every target moves the intercept by that constant and nothing else
        let y2: Vec<f64> = case.y.iter().map(|v| v + case.shift).collect();
        let f2 = match fit_model(case, lasso, &y2, alpha, l1_ratio) {
            Err(pn) => return fail(format!("{}/shifted/panic", tag), format!("panicked on shifted targets: {}", pn)),
            Ok(Err(e)) => return fail(format!("{}/shifted/err", tag), format!("shifted targets rejected: {}", e)),
            Ok(Ok(f)) => f,
        };
        let wz2: Vec<f64> = if case.normalize { (0..p).map(|j| f2.w[j] * sd[j]).collect() } else { f2.w.clone() };
        let fgot2 = objective(&z, &yc, &wz2, l1, l2);
        ctx.bound(&format!("{}/target-shift-changes-coefficients", tag), fgot2 - fstar, K * case.tol * fstar + 1e-9 * (ycn2 + case.shift.abs() * spread * nf * 1e-3))?;
        let bsc2 = bsc + case.shift.abs();
        let db = (f2.b - f.b) - case.shift;
        // the intercept follows the coefficients: b = mean(y) - w . mean(x)
        let dw_term: f64 = if case.normalize { (0..p).map(|j| (f2.w[j] - f.w[j]) * mu[j]).sum() } else { 0.0 };
        ctx.bound(&format!("{}/target-shift-moves-intercept", tag), (db + dw_term).abs(), 1e-9 * bsc2.max(spread))?;
        if !lasso && case.l1_ratio == 1.0 {
            ctx.label("elastic-net-with-l1_ratio=1");
        }
    }
    Ok(())
}

// ------------------------------------------------------------------ Lasso error reporting

#[derive(Clone, Debug, Serialize, Deserialize)]
pub struct ErrCase {
    pub kind: u8,
    pub n: usize,
    pub p: usize,
    pub constant: f64,
    pub col: u16,
}

fn strat_err(_t: Tier) -> BoxedStrategy<ErrCase> {
    (0u8..7, 1usize..=5, 2usize..=12, prop_oneof![small_int(-5, 5), (1i32..=40).prop_map(|x| x as f64 / 10.0), (1i32..=9).prop_map(|x| x as f64 / 8.0), pow10(2, 8), Just(0.1), Just(0.3), Just(1e-3)], any::<u16>())
        .prop_map(|(kind, p, extra, constant, col)| ErrCase { kind, n: p + extra, p, constant, col })
        .boxed()
}

fn check_err(case: &ErrCase, ctx: &mut Ctx) -> Result<(), Fail> {
    ctx.nontrivial(true);
    let (n, p) = (case.n, case.p);
    let mut x = Mat::from_fn(n, p, |i, j| (((i * 7 + j * 13) % 11) as f64 - 5.0) * 0.5 + (i as f64) * 0.01 * (j as f64 + 1.0));
    let mut y: Vec<f64> = (0..n).map(|i| ((i * 5) % 7) as f64 - 3.0).collect();
    let mut params = LassoParameters::default();
    let what = match case.kind {
        0 => {
            params = params.with_alpha(-0.5);
            "alpha<0"
        }
        1 => {
            params = params.with_tol(0.0);
            "tol=0"
        }
        2 => {
            params = params.with_tol(-1e-4);
            "tol<0"
        }
        3 => {
            params = params.with_max_iter(0);
            "max_iter=0"
        }
        4 => {
            x = x.slice(0, p.min(n), 0, p);
            y.truncate(p.min(n));
            "n<=p"
        }
        5 => {
            y.push(1.0);
            "length-mismatch"
        }
        _ => {
            let c = crate::gen::idx(case.col, p);
            for i in 0..n {
                x.set(i, c, case.constant);
            }
            params = params.with_normalize(true);
            "constant-column"
        }
    };
    ctx.label(what);
    let xm = <DenseB as Build<f64>>::build(&x);
    let r = catch(|| Lasso::fit(&xm, &y, params).map(|m| to_mat(m.coefficients()).d));
    match r {
        Err(pn) => fail(format!("lasso/invalid/{}/panic", what), format!("{} (constant {}): panicked instead of returning an error: {}", what, case.constant, pn)),
        Ok(Ok(w)) => fail(format!("lasso/invalid/{}/accepted", what), format!("{} accepted (n={}, p={}, constant {}), coefficients {:?}", what, n, p, case.constant, w)),
        Ok(Err(_)) => Ok(()),
    }
}

pub fn property() -> Property {
    Property {
        id: "C08",
        quick_mult: 48,
        rule: "designs U diag(s) V^T (cond 3, 30 or 1e3), 1<=p<=6, p<n<=40 (quick) / 60 (thorough), columns rescaled by 10^[-1,2] and shifted; targets from a sparse ground truth (inactive coefficients exactly zero) plus noise with mean 0, moderate, or 1e3..1e6 x spread; alpha = fraction in (0, 1.2] of alpha_max computed by the oracle, or 1e-3..1 x alpha_max; l1_ratio = 1 or in (0,1]; tol 1e-6..1e-3; both normalisations; Lasso and elastic net on every case, each fitted a second time on shifted targets. non-trivial = the oracle solution has a proper sparse support (0 < |support| < p); distinct = distinct serialised case",
        assumptions: vec![
            format!("the reference optimum is cyclic coordinate descent on the stated objective, run to a step below 1e-13*||y_c||; the reported objective may exceed it by {} * tol * F* + 1e-10 ||y_c||^2", K),
            "no constant columns are generated for the optimality checks; targets are never constant; max_iter is left at its default".into(),
            "error reporting is asserted for Lasso only, as the statement says".into(),
        ],
        subs: vec![sub("lasso_elastic_net", (800, 30000), strat_l1, check_l1), sub("lasso_invalid_settings", (400, 8000), strat_err, check_err)],
    }
}
