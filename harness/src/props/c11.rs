//! C11 — naive Bayes: sufficient statistics and MAP prediction.
use super::c05::Rows;
use crate::engine::*;
use crate::gen::*;
use proptest::collection::vec;
use proptest::prelude::*;
use serde::{Deserialize, Serialize};
use smartcore::linalg::naive::dense_matrix::DenseMatrix;
use smartcore::naive_bayes::bernoulli::{BernoulliNB, BernoulliNBParameters};
use smartcore::naive_bayes::categorical::{CategoricalNB, CategoricalNBParameters};
use smartcore::naive_bayes::gaussian::{GaussianNB, GaussianNBParameters};
use smartcore::naive_bayes::multinomial::{MultinomialNB, MultinomialNBParameters};

#[derive(Clone, Copy, Debug, PartialEq, Serialize, Deserialize)]
pub enum Variant {
    Gaussian,
    Multinomial,
    Bernoulli,
    Categorical,
}

#[derive(Clone, Debug, Serialize, Deserialize)]
pub struct NbCase {
    pub variant: Variant,
    pub x: Rows,
    pub y: Vec<f64>,
    pub alpha: f64,
    pub priors: Option<Vec<f64>>,
    pub binarize: Option<f64>,
    pub queries: Rows,
    pub degenerate: bool,
}

fn labels(n: usize, contiguous_from_zero: bool) -> BoxedStrategy<Vec<f64>> {
    // skewed frequencies: class index = floor(k * u^2)
    (2usize..=5, vec(0u32..1000, n), Just((-9i32..=9).collect::<Vec<i32>>()).prop_shuffle())
        .prop_map(move |(k, u, vals)| {
            let mut map: Vec<i32> = vals[..k].to_vec();
            map.sort();
            let mut y: Vec<usize> = u.iter().map(|x| ((*x as f64 / 1000.0).powi(2) * k as f64) as usize).collect();
            // at least two classes present
            if y.iter().all(|c| *c == y[0]) && y.len() > 1 {
                let l = y.len();
                y[l - 1] = (y[0] + 1) % k;
            }
            y.iter().map(|c| if contiguous_from_zero { *c as f64 } else { map[*c] as f64 * 3.0 - 1.0 }).collect()
        })
        .boxed()
}

fn strat_nb(variant: Variant, nmax: usize) -> BoxedStrategy<NbCase> {
    (2usize..=nmax, 1usize..=8, prop::bool::weighted(0.08))
        .prop_flat_map(move |(n, p, degenerate)| {
            let x: BoxedStrategy<Rows> = match variant {
                Variant::Gaussian => vec(vec(unit().prop_map(|v| v * 4.0), p), n).boxed(),
                Variant::Multinomial => vec(vec(small_int(0, 20), p), n).boxed(),
                Variant::Bernoulli => prop_oneof![vec(vec(small_int(0, 1), p), n), vec(vec(unit(), p), n)].boxed(),
                Variant::Categorical => (vec(1i32..=5, p), vec(vec(any::<u16>(), p), n)).prop_map(|(mx, s)| s.iter().map(|r| r.iter().zip(&mx).map(|(v, m)| idx(*v, *m as usize + 1) as f64).collect()).collect()).boxed(),
            };
            (x, labels(n, variant == Variant::Categorical), pow10(-2, 0).prop_map(|a| a * 5.0), prop::option::weighted(0.3, vec(1u32..100, 5)), unit(), vec(vec(any::<u16>(), p), 4), Just(degenerate))
        })
        .prop_map(move |(mut x, y, alpha, pri, thr, qsel, degenerate)| {
            let n = x.len();
            let p = x[0].len();
            let mut classes: Vec<f64> = y.clone();
            classes.sort_by(|a, b| a.partial_cmp(b).unwrap());
            classes.dedup();
            let binarize = if variant == Variant::Bernoulli { if x.iter().flatten().all(|v| *v == 0.0 || *v == 1.0) { if thr > 0.0 { None } else { Some(0.0) } } else { Some(thr * 0.5) } } else { None };
            if variant == Variant::Gaussian && thr > 0.4 {
                // well-separated class layout (every other Gaussian case): class c is shifted by 100 c in every feature,
                // 40+ per-class standard deviations apart, so that recombined / perturbed query rows lie far from every
                // class centre (joint densities far below the smallest positive double; the log-scores stay finite)
                for i in 0..n {
                    let c = classes.iter().position(|v| *v == y[i]).unwrap() as f64;
                    for v in x[i].iter_mut() {
                        *v += 100.0 * c;
                    }
                }
            }
            if variant == Variant::Gaussian && !degenerate {
                // per-class variance > 0 by construction: give every class a second, different row
                let mut extra_x = vec![];
                let mut extra_y = vec![];
                for c in &classes {
                    let first = (0..n).find(|i| y[*i] == *c).unwrap();
                    extra_x.push(x[first].iter().enumerate().map(|(j, v)| v + 0.5 + j as f64 * 0.25).collect::<Vec<f64>>());
                    extra_y.push(*c);
                }
                x.extend(extra_x);
                let mut y2 = y.clone();
                y2.extend(extra_y);
                let queries = make_queries(variant, &x, &qsel, p);
                let priors = pri.map(|w| normalise(&w[..classes.len()]));
                return NbCase { variant, x, y: y2, alpha, priors, binarize, queries, degenerate };
            }
            let queries = make_queries(variant, &x, &qsel, p);
            let priors = if variant == Variant::Categorical { None } else { pri.map(|w| normalise(&w[..classes.len()])) };
            NbCase { variant, x, y, alpha, priors, binarize, queries, degenerate }
        })
        .boxed()
}

fn normalise(w: &[u32]) -> Vec<f64> {
    let s: u32 = w.iter().sum();
    w.iter().map(|v| *v as f64 / s as f64).collect()
}

fn make_queries(variant: Variant, x: &Rows, qsel: &[Vec<u16>], p: usize) -> Rows {
    // fresh rows assembled feature-wise from values that occur in training (so they are in range for every
    // variant) plus, for the non-categorical variants, perturbed rows outside the training set
    let n = x.len();
    let mut q: Rows = qsel.iter().map(|s| (0..p).map(|j| x[idx(s[j], n)][j]).collect()).collect();
    if variant != Variant::Categorical {
        q.push(x[0].iter().map(|v| if variant == Variant::Gaussian { v + 0.37 } else { v + 1.0 }).collect());
    }
    q
}

fn strat_gaussian(t: Tier) -> BoxedStrategy<NbCase> {
    strat_nb(Variant::Gaussian, t.pick(80, 120))
}
fn strat_multinomial(t: Tier) -> BoxedStrategy<NbCase> {
    strat_nb(Variant::Multinomial, t.pick(80, 120))
}
fn strat_bernoulli(t: Tier) -> BoxedStrategy<NbCase> {
    strat_nb(Variant::Bernoulli, t.pick(80, 120))
}
fn strat_categorical(t: Tier) -> BoxedStrategy<NbCase> {
    strat_nb(Variant::Categorical, t.pick(80, 120))
}

struct Stats {
    classes: Vec<f64>,
    class_count: Vec<usize>,
    priors: Vec<f64>,
    /// gaussian: theta, var. counts: feature_count / feature_log_prob. categorical: [feature][class][cat]
    theta: Vec<Vec<f64>>,
    var: Vec<Vec<f64>>,
    feature_count: Vec<Vec<usize>>,
    feature_log_prob: Vec<Vec<f64>>,
    cat_count: Vec<Vec<Vec<usize>>>,
    cat_log_prob: Vec<Vec<Vec<f64>>>,
    n_categories: Vec<usize>,
    pred: Result<Vec<f64>, String>,
}

fn fit(case: &NbCase) -> Result<Result<Stats, String>, String> {
    let xm = DenseMatrix::from_2d_vec(&case.x);
    let mut all = case.x.clone();
    all.extend(case.queries.iter().cloned());
    let qm = DenseMatrix::from_2d_vec(&all);
    let pri = |v: &serde_json::Value| -> Vec<f64> { serde_json::from_value(v["inner"]["distribution"]["class_priors"].clone()).unwrap_or_default() };
    // inherent entry points, or (every other case) the generic traits of smartcore::api
    let via_trait = (case.y.len() / 2) % 2 == 1;
    catch(|| {
        let mut s = Stats { classes: vec![], class_count: vec![], priors: vec![], theta: vec![], var: vec![], feature_count: vec![], feature_log_prob: vec![], cat_count: vec![], cat_log_prob: vec![], n_categories: vec![], pred: Err(String::new()) };
        match case.variant {
            Variant::Gaussian => {
                let mut p = GaussianNBParameters::default();
                if let Some(pr) = &case.priors {
                    p = p.with_priors(pr.clone());
                }
                let m: GaussianNB<f64, DenseMatrix<f64>> = if via_trait { sup_fit(&xm, &case.y, p) } else { GaussianNB::fit(&xm, &case.y, p) }.map_err(|e| format!("fit: {}", e))?;
                s.classes = m.classes().clone();
                s.class_count = m.class_count().clone();
                s.priors = m.class_priors().clone();
                s.theta = m.theta().clone();
                s.var = m.var().clone();
                s.pred = catch(|| if via_trait { tr_predict(&m, &qm) } else { m.predict(&qm) }.map_err(|e| e.to_string())).and_then(|r| r);
            }
            Variant::Multinomial => {
                // builder calls in two orders (a setter that rebuilds from the defaults would lose earlier settings)
                let mut p = MultinomialNBParameters::default();
                if case.y.len() % 2 == 0 {
                    p = p.with_alpha(case.alpha);
                }
                if let Some(pr) = &case.priors {
                    p = p.with_priors(pr.clone());
                }
                if case.y.len() % 2 != 0 {
                    p = p.with_alpha(case.alpha);
                }
                let m: MultinomialNB<f64, DenseMatrix<f64>> = if via_trait { sup_fit(&xm, &case.y, p) } else { MultinomialNB::fit(&xm, &case.y, p) }.map_err(|e| format!("fit: {}", e))?;
                s.classes = m.classes().clone();
                s.class_count = m.class_count().clone();
                s.feature_count = m.feature_count().clone();
                s.feature_log_prob = m.feature_log_prob().clone();
                s.priors = pri(&serde_json::to_value(&m).map_err(|e| e.to_string())?);
                s.pred = catch(|| if via_trait { tr_predict(&m, &qm) } else { m.predict(&qm) }.map_err(|e| e.to_string())).and_then(|r| r);
            }
            Variant::Bernoulli => {
                let mut p = BernoulliNBParameters::default();
                if case.y.len() % 2 == 0 {
                    p = p.with_alpha(case.alpha);
                }
                if let Some(pr) = &case.priors {
                    p = p.with_priors(pr.clone());
                }
                if case.y.len() % 2 != 0 {
                    p = p.with_alpha(case.alpha);
                }
                p.binarize = case.binarize;
                let m: BernoulliNB<f64, DenseMatrix<f64>> = if via_trait { sup_fit(&xm, &case.y, p) } else { BernoulliNB::fit(&xm, &case.y, p) }.map_err(|e| format!("fit: {}", e))?;
                s.classes = m.classes().clone();
                s.class_count = m.class_count().clone();
                s.feature_count = m.feature_count().clone();
                s.feature_log_prob = m.feature_log_prob().clone();
                s.priors = pri(&serde_json::to_value(&m).map_err(|e| e.to_string())?);
                s.pred = catch(|| if via_trait { tr_predict(&m, &qm) } else { m.predict(&qm) }.map_err(|e| e.to_string())).and_then(|r| r);
            }
            Variant::Categorical => {
                let m: CategoricalNB<f64, DenseMatrix<f64>> = if via_trait { sup_fit(&xm, &case.y, CategoricalNBParameters::default().with_alpha(case.alpha)) } else { CategoricalNB::fit(&xm, &case.y, CategoricalNBParameters::default().with_alpha(case.alpha)) }.map_err(|e| format!("fit: {}", e))?;
                s.classes = m.classes().clone();
                s.class_count = m.class_count().clone();
                s.cat_count = m.category_count().clone();
                s.cat_log_prob = m.feature_log_prob().clone();
                s.n_categories = m.n_categories().clone();
                s.priors = pri(&serde_json::to_value(&m).map_err(|e| e.to_string())?);
                s.pred = catch(|| if via_trait { tr_predict(&m, &qm) } else { m.predict(&qm) }.map_err(|e| e.to_string())).and_then(|r| r);
            }
        }
        Ok(s)
    })
}

fn check_nb(case: &NbCase, ctx: &mut Ctx) -> Result<(), Fail> {
    let tag = format!("nb/{:?}", case.variant).to_lowercase();
    let n = case.x.len();
    let p = case.x[0].len();
    let s = match fit(case) {
        Err(pn) => return fail(format!("{}/panic", tag), format!("fit panicked: {}", pn)),
        Ok(Err(e)) => return fail(format!("{}/err", tag), format!("valid input rejected: {}", e)),
        Ok(Ok(s)) => s,
    };
    // ---- classes, counts, priors
    let mut classes: Vec<f64> = case.y.clone();
    classes.sort_by(|a, b| a.partial_cmp(b).unwrap());
    classes.dedup();
    if case.variant == Variant::Categorical {
        let mx = classes[classes.len() - 1] as usize;
        classes = (0..=mx).map(|c| c as f64).collect();
    }
    let k = classes.len();
    ensure!(s.classes == classes, format!("{}/classes", tag), "class list {:?}, expected {:?}", s.classes, classes);
    let counts: Vec<usize> = classes.iter().map(|c| case.y.iter().filter(|v| *v == c).count()).collect();
    ensure!(s.class_count == counts, format!("{}/class-count", tag), "class counts {:?}, recount {:?}", s.class_count, counts);
    let want_pri: Vec<f64> = match &case.priors {
        Some(p) => p.clone(),
        None => counts.iter().map(|c| *c as f64 / n as f64).collect(),
    };
    ensure!(s.priors.len() == k, format!("{}/priors", tag), "{} priors for {} classes", s.priors.len(), k);
    for c in 0..k {
        ctx.bound(&format!("{}/prior", tag), (s.priors[c] - want_pri[c]).abs(), 1e-12)?;
    }
    ctx.bound(&format!("{}/priors-sum", tag), (s.priors.iter().sum::<f64>() - 1.0).abs(), 1e-12)?;
    ctx.label_if(case.priors.is_some(), "user-priors");
    ctx.label_if(counts.iter().any(|c| *c == 0), "empty-class");
    let skew = counts.iter().max().unwrap() != counts.iter().min().unwrap();
    ctx.nontrivial(k >= 3 && skew);
    // ---- per-class feature statistics and the MAP score function built from the *reported* statistics
    let rows_of = |c: usize| -> Vec<&Vec<f64>> { (0..n).filter(|i| case.y[*i] == classes[c]).map(|i| &case.x[i]).collect() };
    let score: Box<dyn Fn(usize, &Vec<f64>) -> f64>;
    match case.variant {
        Variant::Gaussian => {
            for c in 0..k {
                let rows = rows_of(c);
                for j in 0..p {
                    let col: Vec<f64> = rows.iter().map(|r| r[j]).collect();
                    let mu = crate::oracle::mean(&col);
                    let var = crate::oracle::var_pop(&col);
                    ctx.bound(&format!("{}/theta", tag), (s.theta[c][j] - mu).abs(), 1e-9 * (mu.abs() + 1.0))?;
                    // the library's per-class variance is MatrixStats::var, the one-pass formula of C03's known finding:
                    // its error 8 n eps E[x^2] is admitted here (it matters only for the shifted class layout)
                    let ex2 = col.iter().map(|v| v * v).sum::<f64>() / col.len() as f64;
                    ctx.bound(&format!("{}/var", tag), (s.var[c][j] - var).abs(), 1e-9 * (var + 1e-3) + 8.0 * col.len() as f64 * f64::EPSILON * ex2)?;
                }
            }
            let (theta, var, pri) = (s.theta.clone(), s.var.clone(), s.priors.clone());
            score = Box::new(move |c, row| pri[c].ln() + (0..row.len()).map(|j| -(row[j] - theta[c][j]).powi(2) / (2.0 * var[c][j]) - (2.0 * std::f64::consts::PI).ln() / 2.0 - var[c][j].ln() / 2.0).sum::<f64>());
        }
        Variant::Multinomial | Variant::Bernoulli => {
            let bin = |v: f64| -> f64 {
                match (case.variant, case.binarize) {
                    (Variant::Bernoulli, Some(t)) => {
                        if v > t {
                            1.0
                        } else {
                            0.0
                        }
                    }
                    _ => v,
                }
            };
            for c in 0..k {
                let rows = rows_of(c);
                let fc: Vec<usize> = (0..p).map(|j| rows.iter().map(|r| bin(r[j]) as usize).sum()).collect();
                ensure!(s.feature_count[c] == fc, format!("{}/feature-count", tag), "class {}: feature counts {:?}, recount {:?}", classes[c], s.feature_count[c], fc);
                let total: usize = fc.iter().sum();
                let mut sum = 0.0;
                for j in 0..p {
                    let want = if case.variant == Variant::Multinomial { ((fc[j] as f64 + case.alpha) / (total as f64 + case.alpha * p as f64)).ln() } else { ((fc[j] as f64 + case.alpha) / (counts[c] as f64 + 2.0 * case.alpha)).ln() };
                    ctx.bound(&format!("{}/feature-log-prob", tag), (s.feature_log_prob[c][j] - want).abs(), 1e-10 * (1.0 + want.abs()))?;
                    sum += s.feature_log_prob[c][j].exp();
                }
                if case.variant == Variant::Multinomial {
                    ctx.bound(&format!("{}/probabilities-sum-to-one", tag), (sum - 1.0).abs(), 1e-10)?;
                } else {
                    for j in 0..p {
                        let pr = s.feature_log_prob[c][j].exp();
                        ensure!(pr > 0.0 && pr < 1.0, format!("{}/probability-range", tag), "P(feature {} | class {}) = {}", j, classes[c], pr);
                    }
                }
            }
            let (flp, pri, variant) = (s.feature_log_prob.clone(), s.priors.clone(), case.variant);
            let thr = case.binarize;
            score = Box::new(move |c, row| {
                pri[c].ln()
                    + (0..row.len())
                        .map(|j| {
                            if variant == Variant::Multinomial {
                                row[j] * flp[c][j]
                            } else {
                                let v = match thr {
                                    Some(t) => {
                                        if row[j] > t {
                                            1.0
                                        } else {
                                            0.0
                                        }
                                    }
                                    None => row[j],
                                };
                                if v == 1.0 {
                                    flp[c][j]
                                } else {
                                    (1.0 - flp[c][j].exp()).ln()
                                }
                            }
                        })
                        .sum::<f64>()
            });
        }
        Variant::Categorical => {
            let ncat: Vec<usize> = (0..p).map(|j| case.x.iter().map(|r| r[j] as usize).max().unwrap() + 1).collect();
            ensure!(s.n_categories == ncat, format!("{}/n-categories", tag), "n_categories {:?}, expected {:?}", s.n_categories, ncat);
            ensure!(s.cat_count.len() == p && s.cat_log_prob.len() == p, format!("{}/shape", tag), "per-feature tables missing");
            for j in 0..p {
                for c in 0..k {
                    let rows = rows_of(c);
                    let cc: Vec<usize> = (0..ncat[j]).map(|v| rows.iter().filter(|r| r[j] as usize == v).count()).collect();
                    ensure!(s.cat_count[j][c] == cc, format!("{}/category-count", tag), "feature {} class {}: category counts {:?}, recount {:?}", j, c, s.cat_count[j][c], cc);
                    let mut sum = 0.0;
                    for v in 0..ncat[j] {
                        let want = ((cc[v] as f64 + case.alpha) / (counts[c] as f64 + ncat[j] as f64 * case.alpha)).ln();
                        ctx.bound(&format!("{}/feature-log-prob", tag), (s.cat_log_prob[j][c][v] - want).abs(), 1e-10 * (1.0 + want.abs()))?;
                        sum += s.cat_log_prob[j][c][v].exp();
                    }
                    ctx.bound(&format!("{}/probabilities-sum-to-one", tag), (sum - 1.0).abs(), 1e-10)?;
                }
            }
            let (clp, pri) = (s.cat_log_prob.clone(), s.priors.clone());
            score = Box::new(move |c, row| pri[c].ln() + (0..row.len()).map(|j| clp[j][c][row[j] as usize]).sum::<f64>());
        }
    }
    // ---- MAP prediction
    let mut all = case.x.clone();
    all.extend(case.queries.iter().cloned());
    let pred = match &s.pred {
        Ok(p) => p,
        Err(e) => {
            if case.variant == Variant::Gaussian && case.degenerate {
                // zero per-class variance makes the Gaussian likelihood 0/0; outside the domain, counted only
                ctx.count("degenerate_predict_failures", 1);
                ctx.label("degenerate-gaussian (predict not asserted)");
                return Ok(());
            }
            return fail(format!("{}/predict-failed", tag), format!("predict failed or panicked: {}", e));
        }
    };
    if case.variant == Variant::Gaussian && s.var.iter().flatten().any(|v| !(*v > 0.0)) {
        ctx.label("degenerate-gaussian (predict not asserted)");
        return Ok(());
    }
    ensure!(pred.len() == all.len(), format!("{}/predict-len", tag), "{} predictions for {} rows", pred.len(), all.len());
    for (i, row) in all.iter().enumerate() {
        let scores: Vec<f64> = (0..k).map(|c| score(c, row)).collect();
        let mx = scores.iter().cloned().fold(f64::NEG_INFINITY, f64::max);
        let pi = match classes.iter().position(|c| *c == pred[i]) {
            Some(pi) => pi,
            None => return fail(format!("{}/predict-label", tag), format!("predicted label {} is not a class {:?}", pred[i], classes)),
        };
        ensure!(mx.is_finite(), format!("{}/scores", tag), "all class scores are non-finite for row {:?}: {:?}", row, scores);
        ensure!(scores[pi] >= mx - 1e-9 * (1.0 + mx.abs()), format!("{}/not-map", tag), "row {:?}: predicted class {} has log-posterior {:e}, the maximum is {:e} (scores {:?} for classes {:?})", row, pred[i], scores[pi], mx, scores, classes);
    }
    Ok(())
}

pub fn property() -> Property {
    Property {
        id: "C11",
        quick_mult: 80,
        rule: "training sets of 2..80 (quick) / 120 (thorough) rows, 1..8 features, 2..5 classes with skewed frequencies and arbitrary integer label values (negative, gaps; categorical: 0..max with possibly empty classes); real features with positive per-class variance by construction (Gaussian; every other case with classes 40+ standard deviations apart; a low-weight degenerate class of cases keeps zero variances), counts 0..20 (multinomial), 0/1 or thresholded reals (Bernoulli), codes 0..5 (categorical); alpha in 0.05..5; optional normalised user priors; queries = all training rows + rows recombined feature-wise from training values + a perturbed row. non-trivial = >= 3 classes with unequal counts; distinct = distinct serialised case",
        assumptions: vec![
            "Gaussian predict on a class with zero variance in some feature is outside the domain (0/0 likelihood); such cases only have their statistics checked".into(),
            "the MAP oracle recomputes the class scores from the statistics the model reports, with the documented formulas, and accepts any class within 1e-9 of the maximum".into(),
            "Gaussian moments are compared at 1e-9 relative accuracy on data with small offsets (the large-offset behaviour of var is C03's known finding)".into(),
        ],
        subs: vec![
            sub("gaussian", (1500, 50000), strat_gaussian, check_nb),
            sub("multinomial", (1500, 50000), strat_multinomial, check_nb),
            sub("bernoulli", (1500, 50000), strat_bernoulli, check_nb),
            sub("categorical", (1500, 50000), strat_categorical, check_nb),
        ],
    }
}
