//! C06 — random forests: seed reproducibility and faithful aggregation.
use super::c05::{class_labels, features, Rows};
use crate::engine::*;
use crate::gen::*;
use proptest::collection::vec;
use proptest::prelude::*;
use serde::{Deserialize, Serialize};
use serde_json::Value;
use smartcore::ensemble::random_forest_classifier::{RandomForestClassifier, RandomForestClassifierParameters};
use smartcore::ensemble::random_forest_regressor::{RandomForestRegressor, RandomForestRegressorParameters};
use smartcore::linalg::naive::dense_matrix::DenseMatrix;
use smartcore::tree::decision_tree_classifier::{DecisionTreeClassifier, SplitCriterion};
use smartcore::tree::decision_tree_regressor::DecisionTreeRegressor;

#[derive(Clone, Debug, Serialize, Deserialize)]
pub struct ForestCase {
    pub class: String,
    pub x: Rows,
    pub y: Vec<f64>,
    pub classifier: bool,
    pub criterion: u8,
    pub seed: u64,
    pub n_trees: u16,
    pub m: Option<usize>,
    pub max_depth: Option<u16>,
    pub min_samples_leaf: usize,
    pub min_samples_split: usize,
    pub keep_samples: bool,
    pub queries: Rows,
}

fn strat_forest(t: Tier) -> BoxedStrategy<ForestCase> {
    (features(t.pick(80, 120)), any::<bool>(), 0u8..3, any::<u64>(), 1u16..=30, prop::option::of(any::<u16>()), prop_oneof![2 => Just(None), 1 => (1u16..=8).prop_map(Some)], (prop_oneof![2 => Just(1usize), 1 => 1usize..=5], prop_oneof![Just(2usize), 0usize..=8], prop::bool::weighted(0.7)))
        .prop_filter("at least 4 rows", |((_, x), ..)| x.len() >= 4)
        .prop_flat_map(|((class, x), classifier, criterion, seed, n_trees, msel, max_depth, (msl, mss, keep))| {
            let n = x.len();
            let p = x[0].len();
            let m = msel.map(|s| 1 + idx(s, p));
            let y = if classifier { class_labels(n) } else { prop_oneof![vec(unit(), n), vec(small_int(-2, 2), n)].boxed() };
            (Just((class, x)), y, vec(vec(small_int(-1, 4), p), 3)).prop_map(move |((class, x), y, queries)| ForestCase { class, x, y, classifier, criterion, seed, n_trees, m, max_depth, min_samples_leaf: msl, min_samples_split: mss, keep_samples: keep, queries })
        })
        .boxed()
}

enum Forest {
    C(RandomForestClassifier<f64>),
    R(RandomForestRegressor<f64>),
}

impl Forest {
    /// the library's own equality
    fn lib_eq(&self, other: &Forest) -> bool {
        match (self, other) {
            (Forest::C(a), Forest::C(b)) => a == b,
            (Forest::R(a), Forest::R(b)) => a == b,
            _ => false,
        }
    }
}

struct Out {
    model: Forest,
    json: Value,
    pred: Vec<f64>,
    oob: Result<Vec<f64>, String>,
}

fn fit_forest(case: &ForestCase) -> Result<Result<Out, String>, String> {
    let xm = DenseMatrix::from_2d_vec(&case.x);
    let mut all = case.x.clone();
    all.extend(case.queries.iter().cloned());
    let qm = DenseMatrix::from_2d_vec(&all);
    catch(|| {
        if case.classifier {
            let criterion = match case.criterion {
                0 => SplitCriterion::Gini,
                1 => SplitCriterion::Entropy,
                _ => SplitCriterion::ClassificationError,
            };
            // builder calls in two orders (a setter that rebuilds from the defaults would lose earlier settings)
            let mut p = RandomForestClassifierParameters::default();
            if case.x.len() % 2 == 0 {
                p = p.with_criterion(criterion.clone()).with_n_trees(case.n_trees).with_min_samples_leaf(case.min_samples_leaf).with_min_samples_split(case.min_samples_split).with_keep_samples(case.keep_samples).with_seed(case.seed);
            }
            if let Some(d) = case.max_depth {
                p = p.with_max_depth(d);
            }
            if let Some(m) = case.m {
                p = p.with_m(m);
            }
            if case.x.len() % 2 != 0 {
                p = p.with_seed(case.seed).with_keep_samples(case.keep_samples).with_min_samples_split(case.min_samples_split).with_min_samples_leaf(case.min_samples_leaf).with_n_trees(case.n_trees).with_criterion(criterion);
            }
            // inherent entry points, or (every other case) the generic traits of smartcore::api
            let via_trait = (case.x.len() / 2) % 2 == 1;
            let f: RandomForestClassifier<f64> = if via_trait { sup_fit(&xm, &case.y, p) } else { RandomForestClassifier::fit(&xm, &case.y, p) }.map_err(|e| format!("fit: {}", e))?;
            Ok(Out { json: serde_json::to_value(&f).map_err(|e| e.to_string())?, pred: if via_trait { tr_predict(&f, &qm) } else { f.predict(&qm) }.map_err(|e| format!("predict: {}", e))?, oob: f.predict_oob(&xm).map_err(|e| e.to_string()), model: Forest::C(f) })
        } else {
            let mut p = RandomForestRegressorParameters::default();
            if case.x.len() % 2 == 0 {
                p = p.with_n_trees(case.n_trees as usize).with_min_samples_leaf(case.min_samples_leaf).with_min_samples_split(case.min_samples_split).with_keep_samples(case.keep_samples).with_seed(case.seed);
            }
            if let Some(d) = case.max_depth {
                p = p.with_max_depth(d);
            }
            if let Some(m) = case.m {
                p = p.with_m(m);
            }
            if case.x.len() % 2 != 0 {
                p = p.with_seed(case.seed).with_keep_samples(case.keep_samples).with_min_samples_split(case.min_samples_split).with_min_samples_leaf(case.min_samples_leaf).with_n_trees(case.n_trees as usize);
            }
            let via_trait = (case.x.len() / 2) % 2 == 1;
            let f: RandomForestRegressor<f64> = if via_trait { sup_fit(&xm, &case.y, p) } else { RandomForestRegressor::fit(&xm, &case.y, p) }.map_err(|e| format!("fit: {}", e))?;
            Ok(Out { json: serde_json::to_value(&f).map_err(|e| e.to_string())?, pred: if via_trait { tr_predict(&f, &qm) } else { f.predict(&qm) }.map_err(|e| format!("predict: {}", e))?, oob: f.predict_oob(&xm).map_err(|e| e.to_string()), model: Forest::R(f) })
        }
    })
}

fn check_forest(case: &ForestCase, ctx: &mut Ctx) -> Result<(), Fail> {
    let n = case.x.len();
    let tag = if case.classifier { "forest_classifier" } else { "forest_regressor" };
    ctx.label(if case.classifier { "classifier" } else { "regressor" });
    ctx.label(if case.keep_samples { "keep_samples" } else { "no-samples" });
    ctx.label_if(case.m.is_some(), "explicit-m");
    let a = match fit_forest(case) {
        Err(p) => return fail(format!("{}/panic", tag), format!("panicked: {}", p)),
        Ok(Err(e)) => return fail(format!("{}/err", tag), format!("valid input rejected: {}", e)),
        Ok(Ok(o)) => o,
    };
    // ---- same data, parameters and seed: identical model and predictions
    let b = match fit_forest(case) {
        Ok(Ok(o)) => o,
        _ => return fail(format!("{}/refit", tag), "second fit failed".to_string()),
    };
    ensure!(a.json == b.json, format!("{}/not-reproducible", tag), "two fits with seed {} serialise differently", case.seed);
    ensure!(a.model.lib_eq(&b.model) && b.model.lib_eq(&a.model) && a.model.lib_eq(&a.model), format!("{}/not-equal", tag), "two fits with seed {} (identical serialisations) do not compare equal with the library's ==", case.seed);
    let bits = |v: &Vec<f64>| v.iter().map(|x| x.to_bits()).collect::<Vec<u64>>();
    ensure!(bits(&a.pred) == bits(&b.pred), format!("{}/not-reproducible", tag), "two fits with seed {} predict differently", case.seed);
    match (&a.oob, &b.oob) {
        (Ok(x), Ok(y)) => ensure!(bits(x) == bits(y), format!("{}/not-reproducible", tag), "OOB predictions differ between two fits with the same seed"),
        (Err(_), Err(_)) => {}
        _ => return fail(format!("{}/not-reproducible", tag), "predict_oob outcome differs between two fits".to_string()),
    }
    // ---- member trees
    let trees = a.json["trees"].as_array().cloned().unwrap_or_default();
    ensure!(trees.len() == case.n_trees as usize, format!("{}/n-trees", tag), "{} member trees, n_trees = {}", trees.len(), case.n_trees);
    let mut all = case.x.clone();
    all.extend(case.queries.iter().cloned());
    let qm = DenseMatrix::from_2d_vec(&all);
    let mut member_pred: Vec<Vec<f64>> = vec![];
    for (ti, tv) in trees.iter().enumerate() {
        let p: Result<Vec<f64>, String> = if case.classifier {
            serde_json::from_value::<DecisionTreeClassifier<f64>>(tv.clone()).map_err(|e| e.to_string()).and_then(|t| catch(|| t.predict(&qm).map_err(|e| e.to_string())).and_then(|r| r))
        } else {
            serde_json::from_value::<DecisionTreeRegressor<f64>>(tv.clone()).map_err(|e| e.to_string()).and_then(|t| catch(|| t.predict(&qm).map_err(|e| e.to_string())).and_then(|r| r))
        };
        match p {
            Ok(v) => member_pred.push(v),
            Err(e) => return fail(format!("{}/member-tree", tag), format!("member tree {} cannot be restored / queried: {}", ti, e)),
        }
    }
    let mut classes: Vec<f64> = case.y.clone();
    classes.sort_by(|a, b| a.partial_cmp(b).unwrap());
    classes.dedup();
    let disagree = (0..all.len()).any(|r| member_pred.iter().any(|t| t[r] != member_pred[0][r]));
    ctx.nontrivial(case.n_trees >= 3 && disagree);
    let (ymin, ymax) = case.y.iter().fold((f64::INFINITY, f64::NEG_INFINITY), |(a, b), v| (a.min(*v), b.max(*v)));
    let yr = (ymax - ymin).max(ymax.abs()).max(1e-300);
    let aggregate = |what: &str, row: usize, got: f64, use_tree: &dyn Fn(usize) -> bool| -> Result<bool, Fail> {
        let used: Vec<usize> = (0..trees.len()).filter(|t| use_tree(*t)).collect();
        if used.is_empty() {
            return Ok(false);
        }
        if case.classifier {
            ensure!(classes.contains(&got), format!("{}/{}-label", tag, what), "row {}: prediction {} is not a training label {:?}", row, got, classes);
            let votes: Vec<usize> = classes.iter().map(|c| used.iter().filter(|t| member_pred[**t][row] == *c).count()).collect();
            let mx = *votes.iter().max().unwrap();
            let gi = classes.iter().position(|c| *c == got).unwrap();
            ensure!(votes[gi] == mx, format!("{}/{}-not-plurality", tag, what), "row {}: forest says {} but its {} trees vote {:?} for classes {:?}", row, got, used.len(), votes, classes);
        } else {
            let mean = used.iter().map(|t| member_pred[*t][row]).sum::<f64>() / used.len() as f64;
            ensure!((got - mean).abs() <= 1e-12 * yr, format!("{}/{}-not-mean", tag, what), "row {}: forest says {}, the mean of its {} trees is {}", row, got, used.len(), mean);
            ensure!(got >= ymin - 1e-12 * yr && got <= ymax + 1e-12 * yr, format!("{}/{}-range", tag, what), "row {}: prediction {} outside the target range [{}, {}]", row, got, ymin, ymax);
        }
        Ok(true)
    };
    for r in 0..all.len() {
        aggregate("predict", r, a.pred[r], &|_| true)?;
    }
    // ---- bootstrap samples and out-of-bag predictions
    if case.keep_samples {
        let samples: Vec<Vec<bool>> = match serde_json::from_value(a.json["samples"].clone()) {
            Ok(s) => s,
            Err(e) => return fail(format!("{}/samples", tag), format!("samples missing although keep_samples = true: {}", e)),
        };
        ensure!(samples.len() == trees.len() && samples.iter().all(|s| s.len() == n), format!("{}/samples", tag), "samples has wrong shape");
        if case.classifier {
            for (t, s) in samples.iter().enumerate() {
                for c in &classes {
                    ensure!((0..n).any(|i| s[i] && case.y[i] == *c), format!("{}/not-stratified", tag), "bootstrap sample of tree {} contains no row of class {}", t, c);
                }
            }
        }
        let oob = match &a.oob {
            Ok(o) => o,
            Err(e) => return fail(format!("{}/oob-err", tag), format!("predict_oob failed although samples were kept: {}", e)),
        };
        let mut skipped = 0;
        for i in 0..n {
            if !aggregate("oob", i, oob[i], &|t| !samples[t][i])? {
                skipped += 1;
            }
        }
        ctx.count("oob_rows_checked", (n - skipped) as u64);
        ctx.count("oob_rows_without_any_tree", skipped as u64);
    } else {
        ensure!(a.oob.is_err(), format!("{}/oob-without-samples", tag), "predict_oob returned a value although samples were not kept");
        ensure!(a.json["samples"].is_null(), format!("{}/samples", tag), "samples stored although keep_samples = false");
    }
    Ok(())
}

pub fn property() -> Property {
    Property {
        id: "C06",
        quick_mult: 32,
        rule: "training sets of 4..80 (quick) / 120 (thorough) rows, 1..6 features (same feature classes as C05), 2..5 classes / real targets, any u64 seed, n_trees 1..30, m None or 1..p, tree limits as in C05, keep_samples on (70%) / off; every forest is fitted twice; member trees are restored from the forest's JSON and queried individually. non-trivial = n_trees >= 3 and two member trees disagree on some row; distinct = distinct serialised case",
        assumptions: vec![
            "training rows for which no tree is out-of-bag are skipped in the OOB check (counted in evidence)".into(),
            "a plurality class is any class with the maximal vote".into(),
        ],
        subs: vec![sub("forest", (600, 20000), strat_forest, check_forest)],
    }
}
