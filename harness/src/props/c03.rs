//! C03 — dense matrix / vector algebra and shape contracts.
use crate::engine::*;
use crate::gen::*;
use crate::matops::*;
use crate::oracle::Mat;
use proptest::collection::vec;
use proptest::prelude::*;
use serde::{Deserialize, Serialize};
use smartcore::linalg::naive::dense_matrix::DenseMatrix;
use smartcore::linalg::{BaseMatrix, BaseVector};

#[derive(Clone, Debug, Serialize, Deserialize)]
pub struct MatCase {
    pub f32: bool,
    pub op: Op,
    pub a: Mat,
    pub b: Mat,
}

/// value classes for a matrix of a given shape
pub fn values(r: usize, c: usize) -> BoxedStrategy<Mat> {
    prop_oneof![
        4 => (unit_mat(r, c), pow2(-3, 8)).prop_map(|(m, s)| m.scale(s)),
        1 => (unit_mat(r, c), pow2(-3, 8)).prop_map(|(m, s)| m.map(|x| -(x.abs() + 1.0 / 1024.0) * s)),
        1 => (unit(), pow2(-3, 8)).prop_map(move |(x, s)| Mat::zeros(r, c).map(|_| x * s)),
        2 => int_mat(r, c, -20, 20),
        1 => int_mat(r, c, 0, 3),
        1 => (unit_mat(r, c), pow2(14, 18)).prop_map(|(m, s)| m.scale(s)),
    ]
    .boxed()
}

pub fn shape(max: usize) -> BoxedStrategy<(usize, usize)> {
    prop_oneof![
        6 => (1..=max, 1..=max),
        1 => (Just(1usize), 1..=max),
        1 => (1..=max, Just(1usize)),
        1 => Just((1usize, 1usize)),
    ]
    .boxed()
}

const N_OPKINDS: usize = 44;

/// Builds the op and the shape of the second operand from selectors.
/// Returns (op, a_shape (possibly overridden), b_shape, link) ; `compat` asks for a compatible pairing.
pub fn build_op(kind: usize, (r, c): (usize, usize), k: usize, compat: bool, s: &[u16], x: f64) -> (Op, (usize, usize), (usize, usize)) {
    let n = r * c;
    let ar = [Arith::Add, Arith::Sub, Arith::Mul, Arith::Div];
    let bump = |v: usize| if s[5] % 2 == 0 || v == 1 { v + 1 } else { v - 1 };
    let same_or_mismatch = |compat: bool| -> (usize, usize) {
        if compat {
            (r, c)
        } else if r != c && s[6] % 2 == 0 {
            (c, r)
        } else if s[6] % 3 == 0 {
            (bump(r), c)
        } else {
            (r, bump(c))
        }
    };
    match kind {
        0 => (Op::Read, (r, c), (1, 1)),
        1 => (Op::Set { i: idx(s[0], r), j: idx(s[1], c), x }, (r, c), (1, 1)),
        2 => (Op::GetRow { i: idx(s[0], r) }, (r, c), (1, 1)),
        3 => (Op::GetCol { j: idx(s[1], c) }, (r, c), (1, 1)),
        4 => (Op::Transpose, (r, c), (1, 1)),
        5 => (Op::Matmul, (r, c), (if compat { c } else { bump(c) }, k)),
        6..=9 => {
            let ta = (kind - 6) & 1 == 1;
            let tb = (kind - 6) & 2 == 2;
            let inner = if ta { r } else { c };
            let inner_b = if compat { inner } else { bump(inner) };
            let bs = if tb { (k, inner_b) } else { (inner_b, k) };
            (Op::Ab { ta, tb }, (r, c), bs)
        }
        10 => {
            // dot: vectors of equal length in any orientation; otherwise must be rejected
            if compat {
                let a = if s[2] % 2 == 0 { (1, n) } else { (n, 1) };
                let b = if s[3] % 2 == 0 { (1, n) } else { (n, 1) };
                (Op::Dot, a, b)
            } else if s[4] % 2 == 0 {
                let a = if s[2] % 2 == 0 { (1, n) } else { (n, 1) };
                let b = if s[3] % 2 == 0 { (1, n + 1) } else { (n + 1, 1) };
                (Op::Dot, a, b)
            } else {
                // neither is a vector
                let rr = r.max(2);
                let cc = c.max(2);
                (Op::Dot, (rr, cc), if s[3] % 2 == 0 { (cc, rr) } else { (rr, cc) })
            }
        }
        11 => (Op::HStack, (r, c), (if compat { r } else { bump(r) }, k)),
        12 => (Op::VStack, (r, c), (k, if compat { c } else { bump(c) })),
        13 => {
            let (mut r0, mut r1) = (idx(s[0], r), idx(s[2], r));
            if r0 > r1 {
                std::mem::swap(&mut r0, &mut r1);
            }
            let (mut c0, mut c1) = (idx(s[1], c), idx(s[3], c));
            if c0 > c1 {
                std::mem::swap(&mut c0, &mut c1);
            }
            (Op::Slice { r0, r1: r1 + 1, c0, c1: c1 + 1 }, (r, c), (1, 1))
        }
        14 => {
            if compat {
                let divs: Vec<usize> = (1..=n).filter(|d| n % d == 0).collect();
                let d = divs[idx(s[0], divs.len())];
                (Op::Reshape { r: d, c: n / d }, (r, c), (1, 1))
            } else {
                (Op::Reshape { r, c: c + 1 + idx(s[0], 3) }, (r, c), (1, 1))
            }
        }
        15 | 16 => {
            let axis = (kind - 15) as u8;
            let len = if axis == 0 { r } else { c };
            let cnt = 1 + idx(s[4], 6);
            let ix: Vec<usize> = (0..cnt).map(|t| idx(s[t % 4].wrapping_mul(31).wrapping_add((t as u16).wrapping_mul(9973)), len)).collect();
            (Op::Take { idx: ix, axis }, (r, c), (1, 1))
        }
        17 => (Op::ToRowVector, (r, c), (1, 1)),
        18 => (Op::FromRowVector, (r, c), (1, 1)),
        19..=22 => (Op::Bin(ar[kind - 19]), (r, c), same_or_mismatch(compat)),
        23..=26 => (Op::Scalar(ar[kind - 23], if x == 0.0 { 0.5 } else { x }), (r, c), (1, 1)),
        27..=30 => (Op::Elem(ar[kind - 27], idx(s[0], r), idx(s[1], c), if x == 0.0 { 0.5 } else { x }), (r, c), (1, 1)),
        31 => (Op::Norm2, (r, c), (1, 1)),
        32 => {
            let ps = [1.0, 2.0, 3.0, f64::INFINITY, f64::NEG_INFINITY];
            (Op::Norm { p: ps[idx(s[0], 5)] }, (r, c), (1, 1))
        }
        33 => (Op::Sum, (r, c), (1, 1)),
        34 => (Op::Min, (r, c), (1, 1)),
        35 => (Op::Max, (r, c), (1, 1)),
        36 => (Op::MaxDiff, (r, c), (r, c)),
        37 => (if s[0] % 3 == 0 { Op::ColumnMean } else { Op::Mean { axis: (s[0] % 2) as u8 } }, (r, c), (1, 1)),
        38 => (Op::Cov, (r.max(2), c), (1, 1)),
        39 => (Op::Argmax, (r, c), (1, 1)),
        40 => (Op::Unique, (r, c), (1, 1)),
        41 => {
            let which = s[0] % 4;
            let op = match which {
                0 => Op::Abs,
                1 => Op::Neg,
                2 => Op::Binarize { t: x },
                _ => Op::Pow { p: [2.0, 3.0, 0.5][idx(s[1], 3)] },
            };
            (op, (r, c), (1, 1))
        }
        42 => {
            let op = if s[0] % 2 == 0 { Op::Eq } else { Op::ApproxEq { tol: [1e-9, 0.25, 1.0, 0.0][idx(s[1], 4)] } };
            (op, (r, c), same_or_mismatch(compat))
        }
        43 => (Op::CopyFrom, (r, c), same_or_mismatch(compat)),
        _ => {
            let op = match s[0] % 4 {
                0 => Op::Eye { n: r },
                1 => Op::Zeros,
                2 => Op::Ones,
                _ => Op::Fill { x },
            };
            (op, (r, c), (1, 1))
        }
    }
}

/// post-processing of operand values so that an op's arithmetic stays in its domain
pub fn fix_operands(op: &Op, a: &mut Mat, b: &mut Mat, link: u8) {
    match op {
        Op::Bin(Arith::Div) => {
            *b = b.map(|x| if x == 0.0 { 0.5 } else { x });
        }
        Op::Pow { p } if *p == 0.5 => {
            *a = a.abs();
        }
        Op::Eq | Op::ApproxEq { .. } | Op::MaxDiff if (a.r, a.c) == (b.r, b.c) => match link % 3 {
            0 => *b = a.clone(),
            1 => {
                *b = a.clone();
                let k = (link as usize / 3) % b.d.len();
                b.d[k] += 0.5;
            }
            _ => {}
        },
        // equality of operands of DIFFERENT shape must be false even when the two operands hold the very same
        // numbers in storage order: b becomes a reshaped view of a's row-major buffer, of a's column-major
        // buffer, or both become constant matrices of equal element count
        Op::Eq | Op::ApproxEq { .. } if a.r * a.c > 1 && link % 4 != 3 => {
            let (r2, c2) = if a.r != a.c { (a.c, a.r) } else { (1, a.r * a.c) };
            match link % 4 {
                0 => *b = Mat { r: r2, c: c2, d: a.d.clone() },
                1 => {
                    let colbuf: Vec<f64> = (0..a.r * a.c).map(|k| a.at(k % a.r, k / a.r)).collect();
                    *b = Mat::from_fn(r2, c2, |i, j| colbuf[j * r2 + i]);
                }
                _ => {
                    let v = a.d[0];
                    *a = a.map(|_| v);
                    *b = Mat::from_fn(r2, c2, |_, _| v);
                }
            }
        }
        _ => {}
    }
}

pub fn matcase_strategy(max: usize, allow_f32: bool) -> BoxedStrategy<MatCase> {
    (shape(max), 0..=N_OPKINDS, 1..=max, prop::bool::weighted(0.8), vec(any::<u16>(), 7), unit(), any::<u8>(), prop::bool::weighted(0.3))
        .prop_flat_map(move |(sh, kind, k, compat, s, x, link, f32)| {
            let (op, ash, bsh) = build_op(kind, sh, k, compat, &s, x * 4.0);
            (values(ash.0, ash.1), values(bsh.0, bsh.1)).prop_map(move |(mut a, mut b)| {
                fix_operands(&op, &mut a, &mut b, link);
                MatCase { f32: f32 && allow_f32, op: op.clone(), a, b }
            })
        })
        .boxed()
}

pub fn strat_matop(_t: Tier) -> BoxedStrategy<MatCase> {
    matcase_strategy(12, true)
}

pub fn shape_label(m: &Mat) -> &'static str {
    match (m.r, m.c) {
        (1, 1) => "1x1",
        (1, _) => "1xN",
        (_, 1) => "Nx1",
        (r, c) if r == c => "square",
        (r, c) if r > c => "tall",
        _ => "wide",
    }
}

pub fn asym_nontrivial(a: &Mat) -> bool {
    a.r >= 2 && a.c >= 2 && !(a.r == a.c && a.t() == *a)
}

/// exhaustive structural cases: every shape up to 4x4 with pairwise distinct entries x every slice, every reshape
/// target (plus an incompatible one), every take list of length 1..2 on both axes, every row / column, transpose,
/// flatten, and stacking with every second shape up to 3x3 (compatible and not)
fn enum_structural(t: Tier) -> Box<dyn Iterator<Item = MatCase>> {
    let max = t.pick(4, 5);
    let mut out: Vec<MatCase> = vec![];
    for r in 1..=max {
        for c in 1..=max {
            let a = Mat::from_fn(r, c, |i, j| ((i * c + j + 1) as f64) * if (i + j) % 3 == 0 { -1.0 } else { 1.0 });
            let none = Mat::zeros(1, 1);
            let mut push = |op: Op, b: &Mat| {
                for f32 in [false, true] {
                    out.push(MatCase { f32, op: op.clone(), a: a.clone(), b: b.clone() });
                }
            };
            for r0 in 0..r {
                for r1 in r0 + 1..=r {
                    for c0 in 0..c {
                        for c1 in c0 + 1..=c {
                            push(Op::Slice { r0, r1, c0, c1 }, &none);
                        }
                    }
                }
            }
            let n = r * c;
            for d in 1..=n + 1 {
                if n % d == 0 {
                    push(Op::Reshape { r: d, c: n / d }, &none);
                }
            }
            push(Op::Reshape { r, c: c + 1 }, &none);
            push(Op::Reshape { r: r + 1, c }, &none);
            for (axis, len) in [(0u8, r), (1u8, c)] {
                for i in 0..len {
                    push(Op::Take { idx: vec![i], axis }, &none);
                    for j in 0..len {
                        push(Op::Take { idx: vec![i, j], axis }, &none);
                    }
                }
            }
            for i in 0..r {
                push(Op::GetRow { i }, &none);
            }
            for j in 0..c {
                push(Op::GetCol { j }, &none);
            }
            push(Op::Transpose, &none);
            push(Op::ToRowVector, &none);
            push(Op::FromRowVector, &none);
            push(Op::Read, &none);
            push(Op::Argmax, &none);
            for br in 1..=3 {
                for bc in 1..=3 {
                    let b = Mat::from_fn(br, bc, |i, j| 100.0 + (i * bc + j) as f64);
                    push(Op::HStack, &b);
                    push(Op::VStack, &b);
                    push(Op::Matmul, &b);
                    push(Op::Ab { ta: true, tb: false }, &b);
                    push(Op::Ab { ta: false, tb: true }, &b);
                    push(Op::Ab { ta: true, tb: true }, &b);
                    push(Op::CopyFrom, &b);
                    push(Op::Bin(Arith::Sub), &b);
                    push(Op::Eq, &b);
                }
            }
        }
    }
    Box::new(out.into_iter())
}

fn check_matop(case: &MatCase, ctx: &mut Ctx) -> Result<(), Fail> {
    let (a, b, eps) = if case.f32 {
        (to_f32_grid(&case.a), to_f32_grid(&case.b), f32::EPSILON as f64)
    } else {
        (case.a.clone(), case.b.clone(), f64::EPSILON)
    };
    let op = if case.f32 { op_to_f32(&case.op) } else { case.op.clone() };
    ctx.label(op.name());
    ctx.label(format!("shape:{}", shape_label(&a)));
    ctx.label_if(case.f32, "f32");
    ctx.nontrivial(asym_nontrivial(&a));
    let exp = model(&op, &a, &b, eps);
    ctx.label_if(matches!(exp, Expect::Panic), "must-reject");
    ctx.label_if(matches!(exp, Expect::Unspecified), "unspecified");
    let got = if case.f32 { exec::<f32, DenseB>(&op, &a, &b)? } else { exec::<f64, DenseB>(&op, &a, &b)? };
    compare(&format!("dense/{}", op.name()), &got, &exp)
}

/// rounds the scalar parameters of an op to f32
pub fn op_to_f32(op: &Op) -> Op {
    let g = |x: f64| x as f32 as f64;
    match op {
        Op::Set { i, j, x } => Op::Set { i: *i, j: *j, x: g(*x) },
        Op::Scalar(k, x) => Op::Scalar(*k, g(*x)),
        Op::Elem(k, i, j, x) => Op::Elem(*k, *i, *j, g(*x)),
        Op::Binarize { t } => Op::Binarize { t: g(*t) },
        Op::Fill { x } => Op::Fill { x: g(*x) },
        Op::ApproxEq { tol } => Op::ApproxEq { tol: g(*tol) },
        Op::Scale { axis, mean, std } => Op::Scale { axis: *axis, mean: mean.iter().map(|x| g(*x)).collect(), std: std.iter().map(|x| g(*x)).collect() },
        o => o.clone(),
    }
}

// ---------------------------------------------------------------- variance / std / scale

#[derive(Clone, Debug, Serialize, Deserialize)]
pub struct VarCase {
    pub f32: bool,
    pub axis: u8,
    pub std: bool,
    pub vector: bool,
    pub a: Mat,
    pub offset_over_spread: f64,
}

pub fn offset_values(r: usize, c: usize, f32: bool) -> BoxedStrategy<(Mat, f64)> {
    // values = spread * (offset_ratio*sign + u), u dyadic in [-1,1]
    let ratio = if f32 { pow2(0, 10).boxed() } else { prop_oneof![pow10(0, 8), pow2(0, 26), Just(0.0)].boxed() };
    (unit_mat(r, c), ratio, pow2(-6, 6), any::<bool>(), prop::bool::weighted(0.1))
        .prop_map(|(u, ratio, spread, neg, constant)| {
            let off = if neg { -ratio } else { ratio };
            let m = if constant { u.map(|_| (off + 0.3) * spread) } else { u.map(|x| (off + x) * spread) };
            (m, ratio)
        })
        .boxed()
}

pub fn strat_var(_t: Tier) -> BoxedStrategy<VarCase> {
    (shape(12), any::<bool>(), any::<bool>(), prop::bool::weighted(0.3), prop::bool::weighted(0.3))
        .prop_flat_map(|((r, c), axis, std, vector, f32)| {
            let (r, c) = if vector { (1, r * c) } else { (r, c) };
            offset_values(r, c, f32).prop_map(move |(a, ratio)| VarCase { f32, axis: if vector { 1 } else { axis as u8 }, std, vector, a, offset_over_spread: ratio })
        })
        .boxed()
}

fn check_var_case(case: &VarCase, ctx: &mut Ctx) -> Result<(), Fail> {
    let (a, eps, rel) = if case.f32 { (to_f32_grid(&case.a), f32::EPSILON as f64, 2e-3) } else { (case.a.clone(), f64::EPSILON, 1e-6) };
    let n_along = if case.axis == 0 { a.r } else { a.c };
    ctx.nontrivial(n_along >= 3 && case.offset_over_spread >= 100.0);
    ctx.label(if case.vector { "BaseVector" } else { "MatrixStats" });
    ctx.label(if case.std { "std" } else { "var" });
    ctx.label_if(case.f32, "f32");
    ctx.label_if(case.offset_over_spread >= 1e6, "offset>=1e6*spread");
    let tag;
    let got = if case.vector {
        tag = format!("dense/v{}", if case.std { "std" } else { "var" });
        let op = if case.std { VOp::Std } else { VOp::Var };
        if case.f32 { vexec::<f32, DenseB>(&op, &a.d, &[])? } else { vexec::<f64, DenseB>(&op, &a.d, &[])? }
    } else {
        tag = format!("dense/{}", if case.std { "std" } else { "var" });
        let op = if case.std { Op::Std { axis: case.axis } } else { Op::Var { axis: case.axis } };
        let b = Mat::zeros(1, 1);
        if case.f32 { exec::<f32, DenseB>(&op, &a, &b)? } else { exec::<f64, DenseB>(&op, &a, &b)? }
    };
    // the covariance matrix of the same offset data (rows = observations): accurate relative to the spread as well
    // (the library centres both factors; the model's tolerance is the rounding of the means times the spread).
    // Checked first: the variance check below may end in the known one-pass finding.
    if !case.vector && a.r >= 2 {
        let b = Mat::zeros(1, 1);
        let gotc = if case.f32 { exec::<f32, DenseB>(&Op::Cov, &a, &b)? } else { exec::<f64, DenseB>(&Op::Cov, &a, &b)? };
        compare("dense/cov-offset", &gotc, &model(&Op::Cov, &a, &b, eps))?;
    }
    check_var(&tag, &a, case.axis, case.std, &got, eps, rel)
}

#[derive(Clone, Debug, Serialize, Deserialize)]
pub struct ScaleCase {
    pub f32: bool,
    pub axis: u8,
    pub a: Mat,
    pub mean: Vec<f64>,
    pub std: Vec<f64>,
}

pub fn strat_scale(_t: Tier) -> BoxedStrategy<ScaleCase> {
    (shape(12), any::<bool>(), prop::bool::weighted(0.3))
        .prop_flat_map(|((r, c), axis, f32)| {
            let k = if axis { c } else { r };
            (values(r, c), vec(unit(), k), vec(unit_pos(), k)).prop_map(move |(a, mean, std)| ScaleCase { f32, axis: if axis { 0 } else { 1 }, a, mean: mean.iter().map(|x| x * 4.0).collect(), std: std.iter().map(|x| x * 4.0).collect() })
        })
        .boxed()
}

fn check_scale(case: &ScaleCase, ctx: &mut Ctx) -> Result<(), Fail> {
    let g = |x: &f64| *x as f32 as f64;
    let (a, mean, std, eps): (Mat, Vec<f64>, Vec<f64>, f64) = if case.f32 {
        (to_f32_grid(&case.a), case.mean.iter().map(g).collect(), case.std.iter().map(g).collect(), f32::EPSILON as f64)
    } else {
        (case.a.clone(), case.mean.clone(), case.std.clone(), f64::EPSILON)
    };
    ctx.nontrivial(asym_nontrivial(&a));
    ctx.label(format!("axis{}", case.axis));
    let op = Op::Scale { axis: case.axis, mean, std };
    let b = Mat::zeros(1, 1);
    let got = if case.f32 { exec::<f32, DenseB>(&op, &a, &b)? } else { exec::<f64, DenseB>(&op, &a, &b)? };
    compare("dense/scale", &got, &model(&op, &a, &b, eps))
}

// ---------------------------------------------------------------- softmax

#[derive(Clone, Debug, Serialize, Deserialize)]
pub struct SoftmaxCase {
    pub f32: bool,
    pub a: Mat,
}

pub fn softmax_values(r: usize, c: usize, f32: bool) -> BoxedStrategy<Mat> {
    // 'any finite input': magnitudes well beyond the point where exp() underflows (-745 in f64, -104 in f32)
    let big = if f32 { 400.0 } else { 3000.0 };
    prop_oneof![
        2 => (unit_mat(r, c), pow2(-2, 4)).prop_map(|(m, s)| m.scale(s)),
        // all negative, large magnitude
        3 => (unit_mat(r, c), unit_pos()).prop_map(move |(m, s)| m.map(|x| -(x.abs() * 0.5 + 0.5) * big * s)),
        // all positive, large magnitude
        1 => (unit_mat(r, c), unit_pos()).prop_map(move |(m, s)| m.map(|x| (x.abs() * 0.5 + 0.5) * big * s)),
        // mixed, large
        1 => (unit_mat(r, c), unit_pos()).prop_map(move |(m, s)| m.scale(big * 0.5 * s)),
        1 => (unit(), Just(big)).prop_map(move |(x, s)| Mat::zeros(r, c).map(|_| x * s)),
        1 => int_mat(r, c, -30, 0),
        // astronomically large magnitudes, all negative / all positive / mixed
        1 => (unit_mat(r, c), -1i32..=1, pow10(4, 30)).prop_map(move |(m, sgn, s)| { let s = if f32 { s.min(1e30) } else { s * 1e200 }; m.map(|x| if sgn < 0 { -(x.abs() + 0.5) * s } else if sgn > 0 { (x.abs() + 0.5) * s } else { x * s }) }),
    ]
    .boxed()
}

pub fn strat_softmax(_t: Tier) -> BoxedStrategy<SoftmaxCase> {
    (shape(12), prop::bool::weighted(0.3))
        .prop_flat_map(|((r, c), f32)| softmax_values(r, c, f32).prop_map(move |a| SoftmaxCase { f32, a }))
        .boxed()
}

pub fn softmax_props(tag: &str, a: &Mat, got: &Result<Val, String>, eps: f64) -> Result<(), Fail> {
    let g = match got {
        Err(m) => return fail(format!("{}/panic", tag), format!("softmax panicked: {}", m)),
        Ok(Val::M(m)) => m,
        Ok(o) => return fail(format!("{}/kind", tag), format!("{:?}", o)),
    };
    ensure!((g.r, g.c) == (a.r, a.c), format!("{}/shape", tag), "shape changed");
    let n = a.d.len() as f64;
    let mut sum = 0.0;
    for (i, p) in g.d.iter().enumerate() {
        ensure!(p.is_finite() && *p >= 0.0 && *p <= 1.0, format!("{}/not-probability", tag), "softmax({:?}) has entry {} = {:e}: not a probability", a.d, i, p);
        sum += p;
    }
    ensure!((sum - 1.0).abs() <= 8.0 * (n + 4.0) * eps, format!("{}/not-probability", tag), "softmax({:?}) sums to {:e}", a.d, sum);
    // order preserving
    for i in 0..a.d.len() {
        for j in 0..a.d.len() {
            if a.d[i] > a.d[j] {
                ensure!(g.d[i] >= g.d[j], format!("{}/order", tag), "softmax not monotone: x[{}]={} > x[{}]={} but p {:e} < {:e}", i, a.d[i], j, a.d[j], g.d[i], g.d[j]);
            }
        }
    }
    Ok(())
}

fn check_softmax(case: &SoftmaxCase, ctx: &mut Ctx) -> Result<(), Fail> {
    let (a, eps) = if case.f32 { (to_f32_grid(&case.a), f32::EPSILON as f64) } else { (case.a.clone(), f64::EPSILON) };
    let mx = a.d.iter().cloned().fold(f64::NEG_INFINITY, f64::max);
    ctx.nontrivial(a.d.len() >= 2 && a.d.iter().any(|x| *x != a.d[0]));
    ctx.label_if(mx < 0.0, "all-negative");
    ctx.label_if(a.max_abs() > 40.0, "large-magnitude");
    ctx.label_if(case.f32, "f32");
    let b = Mat::zeros(1, 1);
    let got = if case.f32 { exec::<f32, DenseB>(&Op::Softmax, &a, &b)? } else { exec::<f64, DenseB>(&Op::Softmax, &a, &b)? };
    softmax_props("dense/softmax", &a, &got, eps)?;
    compare("dense/softmax", &got, &model(&Op::Softmax, &a, &b, eps))
}

// ---------------------------------------------------------------- vectors

#[derive(Clone, Debug, Serialize, Deserialize)]
pub struct VecCase {
    pub f32: bool,
    pub op: VOp,
    pub a: Vec<f64>,
    pub b: Vec<f64>,
}

const N_VOPKINDS: usize = 24;

pub fn build_vop(kind: usize, n: usize, compat: bool, s: &[u16], x: f64) -> (VOp, usize) {
    let ar = [Arith::Add, Arith::Sub, Arith::Mul, Arith::Div];
    let nb = if compat { n } else if n > 1 && s[3] % 2 == 0 { n - 1 } else { n + 1 };
    let xz = if x == 0.0 { 0.5 } else { x };
    match kind {
        0 => (VOp::Read, 1),
        1 => (VOp::Set { i: idx(s[0], n), x }, 1),
        2 => (VOp::Dot, nb),
        3 => (VOp::ApproxEq { tol: [1e-9, 0.25, 1.0, 0.0][idx(s[1], 4)] }, nb),
        4 => (VOp::Norm2, 1),
        5 => (VOp::Norm { p: [1.0, 2.0, 3.0, f64::INFINITY, f64::NEG_INFINITY][idx(s[0], 5)] }, 1),
        6..=9 => (VOp::Elem(ar[kind - 6], idx(s[0], n), xz), 1),
        10..=13 => (VOp::Scalar(ar[kind - 10], xz), 1),
        14..=17 => (VOp::Bin(ar[kind - 14]), nb),
        18 => (VOp::Sum, 1),
        19 => (VOp::Unique, 1),
        20 => (VOp::Mean, 1),
        21 => (VOp::CopyFrom, nb),
        22 => {
            let cnt = 1 + idx(s[4], 6);
            (VOp::Take { idx: (0..cnt).map(|t| idx(s[t % 4].wrapping_mul(31).wrapping_add((t as u16).wrapping_mul(9973)), n)).collect() }, 1)
        }
        23 => (VOp::FromArray, 1),
        _ => (
            match s[0] % 3 {
                0 => VOp::Zeros,
                1 => VOp::Ones,
                _ => VOp::Fill { x },
            },
            1,
        ),
    }
}

pub fn veccase_strategy(max: usize, allow_f32: bool) -> BoxedStrategy<VecCase> {
    (1..=max, 0..=N_VOPKINDS, prop::bool::weighted(0.8), vec(any::<u16>(), 5), unit(), any::<u8>(), prop::bool::weighted(0.3))
        .prop_flat_map(move |(n, kind, compat, s, x, link, f32)| {
            let (op, nb) = build_vop(kind, n, compat, &s, x * 4.0);
            (values(1, n), values(1, nb)).prop_map(move |(a, b)| {
                let mut b = b.d;
                if matches!(op, VOp::Bin(Arith::Div)) {
                    b.iter_mut().for_each(|x| {
                        if *x == 0.0 {
                            *x = 0.5
                        }
                    });
                }
                if matches!(op, VOp::ApproxEq { .. }) && b.len() == a.d.len() {
                    match link % 3 {
                        0 => b = a.d.clone(),
                        1 => {
                            b = a.d.clone();
                            let k = (link as usize / 3) % b.len();
                            b[k] += 0.5;
                        }
                        _ => {}
                    }
                }
                VecCase { f32: f32 && allow_f32, op: op.clone(), a: a.d, b }
            })
        })
        .boxed()
}

pub fn strat_vecop(_t: Tier) -> BoxedStrategy<VecCase> {
    veccase_strategy(24, true)
}

pub fn vop_to_f32(op: &VOp) -> VOp {
    let g = |x: f64| x as f32 as f64;
    match op {
        VOp::Set { i, x } => VOp::Set { i: *i, x: g(*x) },
        VOp::Scalar(k, x) => VOp::Scalar(*k, g(*x)),
        VOp::Elem(k, i, x) => VOp::Elem(*k, *i, g(*x)),
        VOp::Fill { x } => VOp::Fill { x: g(*x) },
        VOp::ApproxEq { tol } => VOp::ApproxEq { tol: g(*tol) },
        o => o.clone(),
    }
}

fn check_vecop(case: &VecCase, ctx: &mut Ctx) -> Result<(), Fail> {
    let g = |x: &f64| *x as f32 as f64;
    let (a, b, eps): (Vec<f64>, Vec<f64>, f64) = if case.f32 {
        (case.a.iter().map(g).collect(), case.b.iter().map(g).collect(), f32::EPSILON as f64)
    } else {
        (case.a.clone(), case.b.clone(), f64::EPSILON)
    };
    let op = if case.f32 { vop_to_f32(&case.op) } else { case.op.clone() };
    ctx.label(op.name());
    ctx.label_if(case.f32, "f32");
    ctx.nontrivial(a.len() >= 2);
    let exp = vmodel(&op, &a, &b, eps);
    ctx.label_if(matches!(exp, Expect::Panic), "must-reject");
    let got = if case.f32 { vexec::<f32, DenseB>(&op, &a, &b)? } else { vexec::<f64, DenseB>(&op, &a, &b)? };
    compare(&format!("dense/{}", op.name()), &got, &exp)
}

// ---------------------------------------------------------------- constructors and iteration (dense only)

#[derive(Clone, Debug, Serialize, Deserialize)]
pub struct CtorCase {
    pub a: Mat,
}

pub fn strat_ctor(_t: Tier) -> BoxedStrategy<CtorCase> {
    shape(12).prop_flat_map(|(r, c)| values(r, c).prop_map(|a| CtorCase { a })).boxed()
}

fn check_ctor(case: &CtorCase, ctx: &mut Ctx) -> Result<(), Fail> {
    let a = &case.a;
    ctx.nontrivial(asym_nontrivial(a));
    ctx.label(format!("shape:{}", shape_label(a)));
    let rows = a.rows();
    let colmajor: Vec<f64> = (0..a.c).flat_map(|j| a.col(j)).collect();
    let eq = |what: &str, m: &DenseMatrix<f64>| -> Result<(), Fail> {
        let g = to_mat(m);
        ensure!(g == *a, format!("dense/ctor/{}", what), "{} gives {:?}, expected logical view {:?}", what, g, a);
        Ok(())
    };
    eq("from_2d_vec", &no_panic("from_2d_vec", || DenseMatrix::from_2d_vec(&rows))?)?;
    let refs: Vec<&[f64]> = rows.iter().map(|r| &r[..]).collect();
    eq("from_2d_array", &no_panic("from_2d_array", || DenseMatrix::from_2d_array(&refs))?)?;
    eq("from_array", &no_panic("from_array", || DenseMatrix::from_array(a.r, a.c, &a.d))?)?;
    eq("from_vec", &no_panic("from_vec", || DenseMatrix::from_vec(a.r, a.c, &a.d))?)?;
    eq("new(column-major)", &no_panic("new", || DenseMatrix::new(a.r, a.c, colmajor.clone()))?)?;
    let m = DenseMatrix::from_2d_vec(&rows);
    let it: Vec<f64> = no_panic("iter", || m.iter().collect())?;
    ensure!(it == a.d, "dense/iter/order", "iter() yields {:?}, expected row-major {:?}", it, a.d);
    ensure!(m.shape() == (a.r, a.c), "dense/shape", "shape {:?}", m.shape());
    // vector constructors
    let flat = a.d.clone();
    let rv = DenseMatrix::row_vector_from_array(&flat);
    ensure!(to_mat(&rv) == Mat { r: 1, c: flat.len(), d: flat.clone() }, "dense/ctor/row_vector_from_array", "row vector wrong");
    let rv = DenseMatrix::row_vector_from_vec(flat.clone());
    ensure!(to_mat(&rv) == Mat { r: 1, c: flat.len(), d: flat.clone() }, "dense/ctor/row_vector_from_vec", "row vector wrong");
    let cv = DenseMatrix::column_vector_from_array(&flat);
    ensure!(to_mat(&cv) == Mat { r: flat.len(), c: 1, d: flat.clone() }, "dense/ctor/column_vector_from_array", "column vector wrong");
    let cv = DenseMatrix::column_vector_from_vec(flat.clone());
    ensure!(to_mat(&cv) == Mat { r: flat.len(), c: 1, d: flat.clone() }, "dense/ctor/column_vector_from_vec", "column vector wrong");
    let fr = DenseMatrix::from_row_vector(flat.clone());
    ensure!(to_mat(&fr) == Mat { r: 1, c: flat.len(), d: flat.clone() }, "dense/ctor/from_row_vector", "from_row_vector wrong");
    // Vec<T> as BaseVector: from_array / to_vec
    let v: Vec<f64> = BaseVector::from_array(&flat[..]);
    ensure!(v == flat, "dense/vfrom_array", "from_array");
    Ok(())
}

// ---------------------------------------------------------------- operation sequences (stateful)

#[derive(Clone, Debug, Serialize, Deserialize)]
pub enum SeqOp {
    Transpose(u8),
    AddMut(u8, u8),
    SubMut(u8, u8),
    MulMut(u8, u8),
    Matmul(u8, u8),
    HStack(u8, u8),
    VStack(u8, u8),
    ScalarMul(u8, i8),
    ScalarAdd(u8, i8),
    Neg(u8),
    Abs(u8),
    Set(u8, u16, u16, i8),
    CopyFrom(u8, u8),
    Reshape(u8, u16),
    SliceRows(u8, u16, u16),
    TakeCols(u8, Vec<u16>),
    Clone(u8, u8),
}

#[derive(Clone, Debug, Serialize, Deserialize)]
pub struct SeqCase {
    pub pool: Vec<Mat>,
    pub ops: Vec<SeqOp>,
}

pub fn strat_seq(t: Tier) -> BoxedStrategy<SeqCase> {
    let p = || 0u8..3;
    let op = prop_oneof![
        p().prop_map(SeqOp::Transpose),
        (p(), p()).prop_map(|(a, b)| SeqOp::AddMut(a, b)),
        (p(), p()).prop_map(|(a, b)| SeqOp::SubMut(a, b)),
        (p(), p()).prop_map(|(a, b)| SeqOp::MulMut(a, b)),
        (p(), p()).prop_map(|(a, b)| SeqOp::Matmul(a, b)),
        (p(), p()).prop_map(|(a, b)| SeqOp::HStack(a, b)),
        (p(), p()).prop_map(|(a, b)| SeqOp::VStack(a, b)),
        (p(), -3i8..=3).prop_map(|(a, b)| SeqOp::ScalarMul(a, b)),
        (p(), -3i8..=3).prop_map(|(a, b)| SeqOp::ScalarAdd(a, b)),
        p().prop_map(SeqOp::Neg),
        p().prop_map(SeqOp::Abs),
        (p(), any::<u16>(), any::<u16>(), -9i8..=9).prop_map(|(a, i, j, x)| SeqOp::Set(a, i, j, x)),
        (p(), p()).prop_map(|(a, b)| SeqOp::CopyFrom(a, b)),
        (p(), any::<u16>()).prop_map(|(a, s)| SeqOp::Reshape(a, s)),
        (p(), any::<u16>(), any::<u16>()).prop_map(|(a, s, e)| SeqOp::SliceRows(a, s, e)),
        (p(), vec(any::<u16>(), 1..4)).prop_map(|(a, s)| SeqOp::TakeCols(a, s)),
        (p(), p()).prop_map(|(a, b)| SeqOp::Clone(a, b)),
    ];
    let max = t.pick(12, 20);
    (
        // shapes chosen so that compatible pairings are frequent
        (1usize..=4, 1usize..=4).prop_flat_map(|(r, c)| (int_mat(r, c, -3, 3), int_mat(r, c, -3, 3), int_mat(c, r, -3, 3))),
        vec(op, 1..max),
    )
        .prop_map(|((a, b, c), ops)| SeqCase { pool: vec![a, b, c], ops })
        .boxed()
}

pub fn check_seq(case: &SeqCase, ctx: &mut Ctx) -> Result<(), Fail> {
    let mut model: Vec<Mat> = case.pool.clone();
    let mut real: Vec<DenseMatrix<f64>> = case.pool.iter().map(|m| <DenseB as Build<f64>>::build(m)).collect();
    let mut applied = 0;
    let mut rejected = 0;
    for (step, op) in case.ops.iter().enumerate() {
        // expected new value of the target slot, or None = must be rejected
        let (slot, expect): (usize, Option<Mat>) = match op {
            SeqOp::Transpose(a) => (*a as usize, Some(model[*a as usize].t())),
            SeqOp::AddMut(a, b) | SeqOp::SubMut(a, b) | SeqOp::MulMut(a, b) => {
                let (x, y) = (&model[*a as usize], &model[*b as usize]);
                let k = match op {
                    SeqOp::AddMut(..) => Arith::Add,
                    SeqOp::SubMut(..) => Arith::Sub,
                    _ => Arith::Mul,
                };
                (*a as usize, if (x.r, x.c) == (y.r, y.c) { Some(Mat::from_fn(x.r, x.c, |i, j| arith(k, x.at(i, j), y.at(i, j)))) } else { None })
            }
            SeqOp::Matmul(a, b) => {
                let (x, y) = (&model[*a as usize], &model[*b as usize]);
                (*a as usize, if x.c == y.r && x.r * y.c <= 400 { Some(x.mul(y)) } else if x.c != y.r { None } else { continue })
            }
            SeqOp::HStack(a, b) => {
                let (x, y) = (&model[*a as usize], &model[*b as usize]);
                (*a as usize, if x.r == y.r && x.c + y.c <= 40 { Some(x.hstack(y)) } else if x.r != y.r { None } else { continue })
            }
            SeqOp::VStack(a, b) => {
                let (x, y) = (&model[*a as usize], &model[*b as usize]);
                (*a as usize, if x.c == y.c && x.r + y.r <= 40 { Some(x.vstack(y)) } else if x.c != y.c { None } else { continue })
            }
            SeqOp::ScalarMul(a, s) => (*a as usize, Some(model[*a as usize].scale(*s as f64))),
            SeqOp::ScalarAdd(a, s) => (*a as usize, Some(model[*a as usize].map(|x| x + *s as f64))),
            SeqOp::Neg(a) => (*a as usize, Some(model[*a as usize].map(|x| -x))),
            SeqOp::Abs(a) => (*a as usize, Some(model[*a as usize].abs())),
            SeqOp::Set(a, i, j, x) => {
                let mut z = model[*a as usize].clone();
                let (i, j) = (idx(*i, z.r), idx(*j, z.c));
                z.set(i, j, *x as f64);
                (*a as usize, Some(z))
            }
            SeqOp::CopyFrom(a, b) => {
                let (x, y) = (&model[*a as usize], &model[*b as usize]);
                (*a as usize, if (x.r, x.c) == (y.r, y.c) { Some(y.clone()) } else { None })
            }
            SeqOp::Reshape(a, s) => {
                let x = &model[*a as usize];
                let n = x.r * x.c;
                let divs: Vec<usize> = (1..=n).filter(|d| n % d == 0).collect();
                let d = divs[idx(*s, divs.len())];
                (*a as usize, Some(Mat { r: d, c: n / d, d: x.d.clone() }))
            }
            SeqOp::SliceRows(a, s, e) => {
                let x = &model[*a as usize];
                let (mut r0, mut r1) = (idx(*s, x.r), idx(*e, x.r));
                if r0 > r1 {
                    std::mem::swap(&mut r0, &mut r1);
                }
                (*a as usize, Some(x.slice(r0, r1 + 1, 0, x.c)))
            }
            SeqOp::TakeCols(a, s) => {
                let x = &model[*a as usize];
                let ix: Vec<usize> = s.iter().map(|v| idx(*v, x.c)).collect();
                (*a as usize, Some(Mat::from_fn(x.r, ix.len(), |i, j| x.at(i, ix[j]))))
            }
            SeqOp::Clone(a, b) => (*a as usize, Some(model[*b as usize].clone())),
        };
        // values stay small integers -> all arithmetic exact; bail out if they grow too much
        if let Some(e) = &expect {
            if e.max_abs() > 1e12 {
                break;
            }
        }
        let snapshot = real.clone();
        let r = catch(|| {
            let mut pool = snapshot.clone();
            let other = |k: &u8| snapshot[*k as usize].clone();
            match op {
                SeqOp::Transpose(a) => pool[*a as usize] = pool[*a as usize].transpose(),
                SeqOp::AddMut(a, b) => {
                    pool[*a as usize].add_mut(&other(b));
                }
                SeqOp::SubMut(a, b) => {
                    pool[*a as usize].sub_mut(&other(b));
                }
                SeqOp::MulMut(a, b) => {
                    pool[*a as usize].mul_mut(&other(b));
                }
                SeqOp::Matmul(a, b) => pool[*a as usize] = pool[*a as usize].matmul(&other(b)),
                SeqOp::HStack(a, b) => pool[*a as usize] = pool[*a as usize].h_stack(&other(b)),
                SeqOp::VStack(a, b) => pool[*a as usize] = pool[*a as usize].v_stack(&other(b)),
                SeqOp::ScalarMul(a, s) => {
                    pool[*a as usize].mul_scalar_mut(*s as f64);
                }
                SeqOp::ScalarAdd(a, s) => {
                    pool[*a as usize].add_scalar_mut(*s as f64);
                }
                SeqOp::Neg(a) => pool[*a as usize].negative_mut(),
                SeqOp::Abs(a) => {
                    pool[*a as usize].abs_mut();
                }
                SeqOp::Set(a, i, j, x) => {
                    let (r, c) = pool[*a as usize].shape();
                    pool[*a as usize].set(idx(*i, r), idx(*j, c), *x as f64);
                }
                SeqOp::CopyFrom(a, b) => pool[*a as usize].copy_from(&other(b)),
                SeqOp::Reshape(a, _) => {
                    let e = expect.as_ref().unwrap();
                    pool[*a as usize] = pool[*a as usize].reshape(e.r, e.c)
                }
                SeqOp::SliceRows(a, s, e) => {
                    let (r, c) = pool[*a as usize].shape();
                    let (mut r0, mut r1) = (idx(*s, r), idx(*e, r));
                    if r0 > r1 {
                        std::mem::swap(&mut r0, &mut r1);
                    }
                    pool[*a as usize] = pool[*a as usize].slice(r0..r1 + 1, 0..c)
                }
                SeqOp::TakeCols(a, s) => {
                    let c = pool[*a as usize].shape().1;
                    let ix: Vec<usize> = s.iter().map(|v| idx(*v, c)).collect();
                    pool[*a as usize] = pool[*a as usize].take(&ix, 1)
                }
                SeqOp::Clone(a, b) => pool[*a as usize] = other(b),
            }
            pool
        });
        match (r, expect) {
            (Err(_), None) => {
                rejected += 1;
            }
            (Ok(_), None) => return fail("dense/seq/accepted-bad-shape", format!("step {} {:?}: incompatible shapes accepted", step, op)),
            (Err(m), Some(_)) => return fail("dense/seq/panic", format!("step {} {:?} panicked: {}", step, op, m)),
            (Ok(pool), Some(e)) => {
                model[slot] = e;
                real = pool;
                applied += 1;
                for k in 0..3 {
                    let g = to_mat(&real[k]);
                    if g != model[k] {
                        return fail(
                            "dense/seq/state",
                            format!("after step {} {:?}: pool[{}] = {:?}, model {:?}{}", step, op, k, g, model[k], if k != slot { " (an operand that should be untouched)" } else { "" }),
                        );
                    }
                }
            }
        }
    }
    ctx.nontrivial(applied >= 3);
    ctx.count("steps_applied", applied);
    ctx.count("steps_rejected_as_required", rejected);
    Ok(())
}

pub fn property() -> Property {
    Property {
        id: "C03",
        quick_mult: 80,
        rule: "cases = (operation, operands, element type) drawn by proptest from shape classes {general,1xN,Nx1,1x1} x value classes {mixed,all-negative,all-equal,integers,large,offset} x compatible/incompatible pairings, plus the exhaustive enumeration of every slice / reshape / take(<=2) / row / column / stacking / product pairing for all shapes up to 4x4 (thorough: 5x5) with pairwise distinct entries; non-trivial = both dimensions >= 2 and the matrix is not square-symmetric (matop/ctor/scale), vector length >= 2 (vecop), >= 3 values along the axis with |mean| >= 100*spread (var_std), non-constant input (softmax), >= 3 applied steps (op_sequences); distinct = distinct serialised case",
        assumptions: vec![
            "DenseMatrix::dot with exactly one vector operand of equal element count (e.g. 2x3 . 1x6) is not decided by the property text and is not asserted".into(),
            "`==` on matrices is the library's epsilon comparison: asserted true for identical operands, false for differing shapes or entries differing by more than 1e-3".into(),
            "f32 cases round the generated dyadic values to f32 first; tolerances use f32 epsilon; variance accuracy for f32 is required for |mean|/spread up to 2^10 (relative 2e-3), for f64 up to 1e8 (relative 1e-6)".into(),
            "slice/take/get/set are exercised with in-range indices only".into(),
        ],
        subs: vec![
            sub_enum("matop", (12000, 400000), strat_matop, check_matop, enum_structural),
            sub("vecop", (5000, 150000), strat_vecop, check_vecop),
            sub("var_std", (4000, 100000), strat_var, check_var_case),
            sub("scale", (1000, 30000), strat_scale, check_scale),
            sub("softmax", (3000, 100000), strat_softmax, check_softmax),
            sub("ctor_iter", (1500, 40000), strat_ctor, check_ctor),
            sub("op_sequences", (2000, 60000), strat_seq, check_seq),
        ],
    }
}
