//! C16 — k-fold, train/test split, cross-validation: partitions and no leakage.
use crate::engine::*;
use proptest::prelude::*;
use serde::{Deserialize, Serialize};
use smartcore::api::Predictor;
use smartcore::error::Failed;
use smartcore::linalg::naive::dense_matrix::DenseMatrix;
use smartcore::linalg::BaseMatrix;
use smartcore::model_selection::{cross_val_predict, cross_validate, train_test_split, BaseKFold, KFold};
use std::cell::RefCell;
use std::collections::BTreeSet;

#[derive(Clone, Debug, Serialize, Deserialize)]
pub struct KFoldCase {
    pub n: usize,
    pub k: usize,
    pub shuffle: bool,
}

fn strat_kfold(_t: Tier) -> BoxedStrategy<KFoldCase> {
    (2usize..=120, any::<u16>(), any::<bool>()).prop_map(|(n, s, shuffle)| KFoldCase { n, k: 2 + crate::gen::idx(s, n - 1), shuffle }).boxed()
}

fn enum_kfold(t: Tier) -> Box<dyn Iterator<Item = KFoldCase>> {
    let nmax = t.pick(40, 64);
    Box::new((2..=nmax).flat_map(move |n| (2..=n).map(move |k| KFoldCase { n, k, shuffle: false })))
}

fn id_matrix(n: usize, p: usize) -> DenseMatrix<f64> {
    let rows: Vec<Vec<f64>> = (0..n).map(|i| (0..p).map(|j| if j == 0 { i as f64 } else { (i * 31 + j * 7) as f64 * 0.125 }).collect()).collect();
    DenseMatrix::from_2d_vec(&rows)
}

/// validity of one k-fold split; returns the test sets
fn validate_split(n: usize, k: usize, shuffle: bool, pairs: &[(Vec<usize>, Vec<usize>)]) -> Result<(), Fail> {
    ensure!(pairs.len() == k, "kfold/count", "n={} k={}: {} pairs returned", n, k, pairs.len());
    let mut seen = vec![false; n];
    let (q, r) = (n / k, n % k);
    for (f, (train, test)) in pairs.iter().enumerate() {
        for &i in test {
            ensure!(i < n, "kfold/range", "n={} k={}: test index {} out of range", n, k, i);
            ensure!(!seen[i], "kfold/partition", "n={} k={}: index {} appears in two test sets", n, k, i);
            seen[i] = true;
        }
        let ts: BTreeSet<usize> = test.iter().cloned().collect();
        ensure!(ts.len() == test.len(), "kfold/partition", "duplicate index inside a test set");
        // balance: sizes differ by at most one
        ensure!(test.len() == q || (test.len() == q + 1 && r > 0), "kfold/balance", "n={} k={}: fold {} has {} test rows (n/k = {})", n, k, f, test.len(), q);
        // train = complement
        let want: Vec<usize> = (0..n).filter(|i| !ts.contains(i)).collect();
        let mut tr = train.clone();
        tr.sort();
        ensure!(tr == want, "kfold/complement", "n={} k={}: fold {} train set is not the complement of its test set: test {:?} train {:?}", n, k, f, test, train);
        ensure!(train.len() == want.len(), "kfold/complement", "duplicates in train set");
        if !shuffle {
            // consecutive blocks, larger folds first
            let start: usize = (0..f).map(|g| q + if g < r { 1 } else { 0 }).sum();
            let len = q + if f < r { 1 } else { 0 };
            let block: Vec<usize> = (start..start + len).collect();
            ensure!(*test == block, "kfold/blocks", "n={} k={}: fold {} test set {:?}, expected the consecutive block {:?}", n, k, f, test, block);
        }
    }
    ensure!(seen.iter().all(|s| *s), "kfold/partition", "n={} k={}: some index is in no test set", n, k);
    let sizes: Vec<usize> = pairs.iter().map(|p| p.1.len()).collect();
    ensure!(sizes.iter().max().unwrap() - sizes.iter().min().unwrap() <= 1, "kfold/balance", "sizes {:?}", sizes);
    Ok(())
}

fn check_kfold(case: &KFoldCase, ctx: &mut Ctx) -> Result<(), Fail> {
    let (n, k) = (case.n, case.k);
    ctx.nontrivial(n % k != 0 && k >= 3);
    ctx.label(if case.shuffle { "shuffle" } else { "no-shuffle" });
    ctx.label_if(k == n, "k==n");
    let x = id_matrix(n, 1);
    // builder calls in both orders, and the struct literal (a setter that rebuilds from the defaults would lose
    // the other setting)
    let cv = match (n + k) % 3 {
        0 => KFold::default().with_n_splits(k).with_shuffle(case.shuffle),
        1 => KFold::default().with_shuffle(case.shuffle).with_n_splits(k),
        _ => KFold { n_splits: k, shuffle: case.shuffle },
    };
    ensure!(cv.n_splits() == k, "kfold/n_splits", "n_splits() = {}", cv.n_splits());
    let draws = if case.shuffle { 12 } else { 1 };
    let mut first_folds: BTreeSet<Vec<usize>> = BTreeSet::new();
    for _ in 0..draws {
        let pairs: Vec<(Vec<usize>, Vec<usize>)> = no_panic("kfold/split", || cv.split(&x).collect())?;
        validate_split(n, k, case.shuffle, &pairs)?;
        first_folds.insert(pairs[0].1.clone());
    }
    if case.shuffle {
        // number of possible first folds = C(n, size); with >= 20 possibilities 12 identical draws have probability < 1e-14
        let size = n / k + if n % k > 0 { 1 } else { 0 };
        let mut c = 1f64;
        for i in 0..size {
            c = c * (n - i) as f64 / (i + 1) as f64;
        }
        if c >= 20.0 {
            ensure!(first_folds.len() > 1, "kfold/shuffle-constant", "n={} k={}: 12 shuffled splits all produced the same first fold {:?}", n, k, first_folds.iter().next());
        }
    }
    Ok(())
}

// ------------------------------------------------------------------ train_test_split

#[derive(Clone, Debug, Serialize, Deserialize)]
pub struct TtsCase {
    pub n: usize,
    pub p: usize,
    pub test_size: f32,
    pub shuffle: bool,
}

fn strat_tts(_t: Tier) -> BoxedStrategy<TtsCase> {
    (1usize..=120, 1usize..=4, prop_oneof![(1u32..=1000).prop_map(|x| x as f32 / 1000.0), (1u32..=20).prop_map(|x| 1.0 / x as f32), Just(1.0f32), Just(0.5f32)], any::<bool>())
        .prop_map(|(n, p, test_size, shuffle)| TtsCase { n, p, test_size, shuffle })
        .boxed()
}

fn check_tts(case: &TtsCase, ctx: &mut Ctx) -> Result<(), Fail> {
    let n = case.n;
    let x = id_matrix(n, case.p);
    let y: Vec<f64> = (0..n).map(|i| 1000.0 + i as f64).collect();
    let n_test = ((n as f32) * case.test_size) as usize; // single precision, as documented
    if n_test < 1 {
        ctx.label("n_test=0 must be rejected");
        return must_panic("train_test_split/n_test=0", || train_test_split(&x, &y, case.test_size, case.shuffle));
    }
    ctx.nontrivial(n_test < n && n >= 4);
    ctx.label(if case.shuffle { "shuffle" } else { "no-shuffle" });
    ctx.label_if(n_test == n, "all-test");
    let (xtr, xte, ytr, yte) = no_panic("train_test_split", || train_test_split(&x, &y, case.test_size, case.shuffle))?;
    ensure!(xte.shape() == (n_test, case.p) && yte.len() == n_test, "tts/test-size", "n={} test_size={}: test part has {} rows / {} targets, expected {}", n, case.test_size, xte.shape().0, yte.len(), n_test);
    ensure!(xtr.shape().0 == n - n_test && ytr.len() == n - n_test && (n - n_test == 0 || xtr.shape().1 == case.p), "tts/train-size", "train part has {} rows / {} targets, expected {}", xtr.shape().0, ytr.len(), n - n_test);
    let mut seen = vec![false; n];
    for (xm, yv, what) in [(&xte, &yte, "test"), (&xtr, &ytr, "train")] {
        for r in 0..xm.shape().0 {
            let id = xm.get(r, 0);
            ensure!(id >= 0.0 && id.fract() == 0.0 && (id as usize) < n, "tts/rows", "{} row {} is not an input row (id {})", what, r, id);
            let id = id as usize;
            ensure!(!seen[id], "tts/disjoint", "row {} occurs twice across train and test", id);
            seen[id] = true;
            ensure!(yv[r] == 1000.0 + id as f64, "tts/target-attached", "{} row with id {} carries target {}", what, id, yv[r]);
            for j in 1..case.p {
                ensure!(xm.get(r, j) == x.get(id, j), "tts/rows", "{} row {} column {} altered", what, id, j);
            }
        }
    }
    ensure!(seen.iter().all(|s| *s), "tts/permutation", "some input row is in neither part");
    if !case.shuffle {
        for r in 0..n_test {
            ensure!(xte.get(r, 0) == r as f64, "tts/leading-rows", "unshuffled test part row {} has id {}", r, xte.get(r, 0));
        }
        for r in 0..n - n_test {
            ensure!(xtr.get(r, 0) == (n_test + r) as f64, "tts/leading-rows", "unshuffled train part row {} has id {}", r, xtr.get(r, 0));
        }
    }
    Ok(())
}

#[derive(Clone, Debug, Serialize, Deserialize)]
pub struct TtsBadCase {
    pub n: usize,
    pub kind: u8,
    pub v: f32,
}

fn strat_tts_bad(_t: Tier) -> BoxedStrategy<TtsBadCase> {
    (1usize..=40, 0u8..3, 1u32..=1000).prop_map(|(n, kind, v)| TtsBadCase { n, kind, v: v as f32 / 100.0 }).boxed()
}

fn check_tts_bad(case: &TtsBadCase, ctx: &mut Ctx) -> Result<(), Fail> {
    ctx.nontrivial(true);
    let x = id_matrix(case.n, 2);
    let y: Vec<f64> = (0..case.n).map(|i| i as f64).collect();
    match case.kind {
        0 => must_panic("train_test_split/test_size<=0", || train_test_split(&x, &y, -case.v + if case.v > 5.0 { case.v } else { 0.0 }, false)),
        1 => must_panic("train_test_split/test_size>1", || train_test_split(&x, &y, 1.0 + case.v, true)),
        _ => {
            let y2: Vec<f64> = (0..case.n + 1 + (case.v as usize % 3)).map(|i| i as f64).collect();
            must_panic("train_test_split/length-mismatch", || train_test_split(&x, &y2, 0.5, false))
        }
    }
}

// ------------------------------------------------------------------ cross validation with an instrumented estimator

#[derive(Clone, Debug, Serialize, Deserialize)]
pub struct CvCase {
    pub n: usize,
    pub k: usize,
    pub shuffle: bool,
    pub p: usize,
}

fn strat_cv(_t: Tier) -> BoxedStrategy<CvCase> {
    (2usize..=60, any::<u16>(), any::<bool>(), 1usize..=3).prop_map(|(n, s, shuffle, p)| CvCase { n, k: 2 + crate::gen::idx(s, (n - 1).min(9)), shuffle, p }).boxed()
}

#[derive(Default)]
struct Log {
    fitted: Vec<Vec<usize>>,
    predicted: Vec<(usize, Vec<usize>)>, // (model number, ids)
    problems: Vec<String>,
}

struct Echo<'a> {
    model: usize,
    seen: BTreeSet<usize>,
    log: &'a RefCell<Log>,
}

impl<'a> Predictor<DenseMatrix<f64>, Vec<f64>> for Echo<'a> {
    fn predict(&self, x: &DenseMatrix<f64>) -> Result<Vec<f64>, Failed> {
        let ids: Vec<usize> = (0..x.shape().0).map(|r| x.get(r, 0) as usize).collect();
        self.log.borrow_mut().predicted.push((self.model, ids.clone()));
        Ok(ids.iter().map(|i| *i as f64).collect())
    }
}

fn check_cv(case: &CvCase, ctx: &mut Ctx) -> Result<(), Fail> {
    let (n, k) = (case.n, case.k);
    ctx.nontrivial(n % k != 0 && k >= 3);
    ctx.label(if case.shuffle { "shuffle" } else { "no-shuffle" });
    let x = id_matrix(n, case.p);
    let y: Vec<f64> = (0..n).map(|i| 1000.0 + i as f64).collect();
    for mode in 0..2 {
        let log = RefCell::new(Log::default());
        let fit = |tx: &DenseMatrix<f64>, ty: &Vec<f64>, _p: u8| -> Result<Echo, Failed> {
            let ids: Vec<usize> = (0..tx.shape().0).map(|r| tx.get(r, 0) as usize).collect();
            let mut l = log.borrow_mut();
            if ty.len() != ids.len() {
                l.problems.push(format!("fit received {} rows but {} targets", ids.len(), ty.len()));
            }
            for (i, id) in ids.iter().enumerate() {
                if i < ty.len() && ty[i] != 1000.0 + *id as f64 {
                    l.problems.push(format!("fit: row id {} paired with target {}", id, ty[i]));
                }
            }
            let model = l.fitted.len();
            l.fitted.push(ids.clone());
            Ok(Echo { model, seen: ids.into_iter().collect(), log: &log })
        };
        let cv = if (n + k) % 2 == 0 { KFold::default().with_n_splits(k).with_shuffle(case.shuffle) } else { KFold::default().with_shuffle(case.shuffle).with_n_splits(k) };
        if mode == 0 {
            // ---- cross_validate
            let scored: RefCell<Vec<(Vec<f64>, Vec<f64>)>> = RefCell::new(vec![]);
            let score = |yt: &Vec<f64>, yp: &Vec<f64>| -> f64 {
                scored.borrow_mut().push((yt.clone(), yp.clone()));
                scored.borrow().len() as f64
            };
            let res = match no_panic("cross_validate", || cross_validate(fit, &x, &y, 0u8, cv, score))? {
                Ok(r) => r,
                Err(e) => return fail("cv/err", format!("cross_validate failed: {}", e)),
            };
            let l = log.borrow();
            ensure!(l.problems.is_empty(), "cv/fit-data", "{:?}", l.problems);
            ensure!(l.fitted.len() == k, "cv/fits", "n={} k={}: {} models fitted", n, k, l.fitted.len());
            ensure!(res.test_score.len() == k && res.train_score.len() == k, "cv/scores", "{} test scores, {} train scores", res.test_score.len(), res.train_score.len());
            let sc = scored.borrow();
            ensure!(sc.len() == 2 * k && l.predicted.len() == 2 * k, "cv/scores", "score called {} times, predict {} times", sc.len(), l.predicted.len());
            let mut pairs = vec![];
            for f in 0..k {
                let train: Vec<usize> = l.fitted[f].clone();
                // predictions: first on the training rows, then on the held-out rows, both by model f
                let (m1, p_train) = &l.predicted[2 * f];
                let (m2, p_test) = &l.predicted[2 * f + 1];
                ensure!(*m1 == f && *m2 == f, "cv/model-mixup", "fold {} scored with models {} and {}", f, m1, m2);
                ensure!(*p_train == train, "cv/train-score-rows", "fold {}: train score computed on rows {:?}, model fitted on {:?}", f, p_train, train);
                let seen: BTreeSet<usize> = train.iter().cloned().collect();
                ensure!(p_test.iter().all(|i| !seen.contains(i)), "cv/leak", "fold {}: held-out rows {:?} overlap the training rows", f, p_test);
                // score arguments: (y_true of those rows, predictions) aligned
                for (call, ids) in [(2 * f, p_train), (2 * f + 1, p_test)] {
                    let (yt, yp) = &sc[call];
                    ensure!(yt.len() == ids.len() && yp.len() == ids.len(), "cv/score-args", "score call {}: lengths {} {} for {} rows", call, yt.len(), yp.len(), ids.len());
                    for (j, id) in ids.iter().enumerate() {
                        ensure!(yt[j] == 1000.0 + *id as f64 && yp[j] == *id as f64, "cv/score-args", "score call {}: row id {} scored with y_true {} prediction {}", call, id, yt[j], yp[j]);
                    }
                }
                ensure!(res.train_score[f] == (2 * f + 1) as f64 && res.test_score[f] == (2 * f + 2) as f64, "cv/score-order", "fold {}: scores stored out of order", f);
                pairs.push((train, p_test.clone()));
            }
            validate_split(n, k, case.shuffle, &pairs)?;
        } else {
            // ---- cross_val_predict
            let yhat = match no_panic("cross_val_predict", || cross_val_predict(fit, &x, &y, 0u8, cv))? {
                Ok(r) => r,
                Err(e) => return fail("cvp/err", format!("cross_val_predict failed: {}", e)),
            };
            let l = log.borrow();
            ensure!(l.problems.is_empty(), "cvp/fit-data", "{:?}", l.problems);
            ensure!(l.fitted.len() == k && l.predicted.len() == k, "cvp/fits", "{} fits, {} predicts", l.fitted.len(), l.predicted.len());
            ensure!(yhat.len() == n, "cvp/length", "{} predictions for {} rows", yhat.len(), n);
            let mut pairs = vec![];
            let mut predictor_of = vec![usize::MAX; n];
            for f in 0..k {
                let (m, ids) = &l.predicted[f];
                ensure!(*m == f, "cvp/model-mixup", "fold {} predicted by model {}", f, m);
                let seen: BTreeSet<usize> = l.fitted[f].iter().cloned().collect();
                for id in ids {
                    ensure!(!seen.contains(id), "cvp/leak", "row {} predicted by a model that was fitted on it", id);
                    predictor_of[*id] = f;
                }
                pairs.push((l.fitted[f].clone(), ids.clone()));
            }
            validate_split(n, k, case.shuffle, &pairs)?;
            for i in 0..n {
                ensure!(yhat[i] == i as f64, "cvp/position", "prediction for row {} is stored as {} (the echo estimator returns the row id)", i, yhat[i]);
                ensure!(predictor_of[i] != usize::MAX, "cvp/unpredicted", "row {} never predicted", i);
            }
        }
    }
    Ok(())
}

pub fn property() -> Property {
    Property {
        id: "C16",
        quick_mult: 40,
        rule: "k-fold: exhaustive enumeration of all 2<=k<=n<=40 (quick) / 64 (thorough) without shuffling plus random (n<=120,k,shuffle) with 12 draws of the unseeded permutation per shuffled case; train_test_split on id-carrying matrices for test_size on a grid of 1/1000 steps and reciprocals; cross_validate / cross_val_predict driven with an echo estimator that records the row ids it was fitted on and returns row ids as predictions. non-trivial = n % k != 0 and k >= 3 (k-fold, cross-validation), 1 <= n_test < n and n >= 4 (split); distinct = distinct serialised case",
        assumptions: vec![
            "shuffled permutations come from the library's thread RNG and are not reproducible; every assertion made on them holds for all permutations, except 'shuffling is not constant', whose false-alarm probability is < 1e-14 per case".into(),
            "the expected test-set size is floor(n as f32 * test_size) evaluated in f32, as the statement says".into(),
        ],
        subs: vec![
            sub_enum("kfold", (3000, 60000), strat_kfold, check_kfold, enum_kfold),
            sub("train_test_split", (3000, 60000), strat_tts, check_tts),
            sub("train_test_split_invalid", (300, 5000), strat_tts_bad, check_tts_bad),
            sub("cross_validation", (2000, 40000), strat_cv, check_cv),
        ],
    }
}
