//! C18 — one-hot encoder and category mapper.
use crate::engine::*;
use crate::gen::*;
use crate::matops::*;
use crate::oracle::Mat;
use proptest::collection::vec;
use proptest::prelude::*;
use serde::{Deserialize, Serialize};
use smartcore::preprocessing::categorical::{OneHotEncoder, OneHotEncoderParams};
use smartcore::preprocessing::series_encoder::CategoryMapper;
use std::collections::HashMap;

#[derive(Clone, Debug, Serialize, Deserialize)]
pub struct OneHotCase {
    pub f32: bool,
    pub x: Mat,
    pub cat_idx: Vec<usize>,
}

/// expected encoding straight from the definition
pub fn expected_onehot(x: &Mat, cat: &[usize]) -> Mat {
    let mut cols: Vec<Vec<f64>> = vec![];
    for j in 0..x.c {
        let col = x.col(j);
        if cat.contains(&j) {
            let mut cats: Vec<f64> = vec![];
            for v in &col {
                if !cats.contains(v) {
                    cats.push(*v);
                }
            }
            for c in &cats {
                cols.push(col.iter().map(|v| if v == c { 1.0 } else { 0.0 }).collect());
            }
        } else {
            cols.push(col);
        }
    }
    Mat::from_fn(x.r, cols.len(), |i, j| cols[j][i])
}

fn onehot_case(n: usize, p: usize) -> BoxedStrategy<OneHotCase> {
    (
        vec(any::<bool>(), p),
        vec((1usize..=6, vec(0u16..=65535, 6), vec(any::<u16>(), n)), p),
        unit_mat(n, p),
        any::<u64>(),
        prop::bool::weighted(0.3),
        prop::bool::weighted(0.5),
    )
        .prop_map(move |(is_cat, cols, plain, order, f32, small_codes)| {
            let mut x = plain.scale(8.0);
            let mut cat_idx = vec![];
            for j in 0..p {
                if is_cat[j] {
                    cat_idx.push(j);
                    let (k, codes, sel) = &cols[j];
                    for i in 0..n {
                        let c = codes[idx(sel[i], *k)];
                        let c = if small_codes { c % 7 } else { c };
                        x.set(i, j, c as f64);
                    }
                }
            }
            // any ordering of the index list: a deterministic shuffle from `order`
            let mut o = order;
            for i in (1..cat_idx.len()).rev() {
                o = o.wrapping_mul(6364136223846793005).wrapping_add(1442695040888963407);
                let j = (o >> 33) as usize % (i + 1);
                cat_idx.swap(i, j);
            }
            OneHotCase { f32, x, cat_idx }
        })
        .boxed()
}

fn strat_onehot(_t: Tier) -> BoxedStrategy<OneHotCase> {
    (1usize..=40, 1usize..=10).prop_flat_map(|(n, p)| onehot_case(n, p)).boxed()
}

fn enum_onehot(t: Tier) -> Box<dyn Iterator<Item = OneHotCase>> {
    let pmax = t.pick(5, 6);
    let pats: [[f64; 4]; 3] = [[0., 0., 0., 0.], [0., 1., 1., 0.], [0., 1., 2., 1.]];
    let it = (1..=pmax).flat_map(move |p| {
        // each column: 0 = plain, 1..3 = categorical with that many categories
        let total = 4usize.pow(p as u32);
        (0..total).flat_map(move |code| {
            let mut x = Mat::zeros(4, p);
            let mut cat_idx = vec![];
            let mut c = code;
            for j in 0..p {
                let k = c % 4;
                c /= 4;
                if k == 0 {
                    for i in 0..4 {
                        x.set(i, j, 0.5 + (i * p + j) as f64);
                    }
                } else {
                    cat_idx.push(j);
                    // codes whose numeric order differs from first-appearance order
                    let codes = [7.0 + j as f64, 3.0, 5.0 + 2.0 * j as f64];
                    for i in 0..4 {
                        x.set(i, j, codes[pats[k - 1][i] as usize]);
                    }
                }
            }
            let mut rev = cat_idx.clone();
            rev.reverse();
            let second = if rev != cat_idx { Some(OneHotCase { f32: false, x: x.clone(), cat_idx: rev }) } else { None };
            std::iter::once(OneHotCase { f32: false, x, cat_idx }).chain(second)
        })
    });
    Box::new(it)
}

macro_rules! run_onehot_impl {
    ($name:ident, $t:ty) => {
        fn $name(x: &Mat, cat: &[usize]) -> Result<Result<Mat, String>, String> {
            let m = <DenseB as Build<$t>>::build(x);
            catch(|| {
                let enc = OneHotEncoder::fit(&m, OneHotEncoderParams::from_cat_idx(cat)).map_err(|e| format!("fit: {}", e))?;
                let out = enc.transform(&m).map_err(|e| format!("transform: {}", e))?;
                Ok(to_mat(&out))
            })
        }
    };
}
run_onehot_impl!(run_onehot_f64, f64);
run_onehot_impl!(run_onehot_f32, f32);

pub fn check_onehot(case: &OneHotCase, ctx: &mut Ctx) -> Result<(), Fail> {
    let x = if case.f32 { to_f32_grid(&case.x) } else { case.x.clone() };
    let mut sorted = case.cat_idx.clone();
    sorted.sort();
    let ncat = sorted.len();
    let adjacent = sorted.windows(2).any(|w| w[1] == w[0] + 1);
    let plain_after_second = ncat >= 2 && (sorted[1] + 1..x.c).any(|j| !sorted.contains(&j));
    ctx.nontrivial(plain_after_second);
    ctx.label(format!("ncat={}", ncat.min(4)));
    ctx.label_if(adjacent, "adjacent-categorical");
    ctx.label_if(ncat > 0 && sorted[0] == 0, "first-col-categorical");
    ctx.label_if(ncat > 0 && sorted[ncat - 1] == x.c - 1, "last-col-categorical");
    ctx.label_if(ncat == x.c, "all-categorical");
    ctx.label_if(case.cat_idx != sorted, "unsorted-index-list");
    ctx.label_if(case.f32, "f32");
    let exp = expected_onehot(&x, &sorted);
    let got = if case.f32 { run_onehot_f32(&x, &case.cat_idx) } else { run_onehot_f64(&x, &case.cat_idx) };
    let got = match got {
        Err(p) => return fail("onehot/panic", format!("fit/transform panicked: {}", p)),
        Ok(Err(e)) => return fail("onehot/err", format!("valid input rejected: {}", e)),
        Ok(Ok(m)) => m,
    };
    ensure!((got.r, got.c) == (exp.r, exp.c), "onehot/shape", "shape {}x{}, expected {}x{}", got.r, got.c, exp.r, exp.c);
    if got != exp {
        // root-cause key: which kind of column is wrong
        let mut sig = "onehot/value";
        'outer: for j in 0..exp.c {
            for i in 0..exp.r {
                if got.at(i, j) != exp.at(i, j) {
                    let _ = i;
                    if ncat >= 2 {
                        sig = "onehot/value/multi-categorical";
                    }
                    break 'outer;
                }
            }
        }
        return fail(sig, format!("categorical columns {:?} of {:?}: got {:?}, expected {:?}", case.cat_idx, x, got, exp));
    }
    Ok(())
}

// ------------------------------------------------------------------ error cases

#[derive(Clone, Debug, Serialize, Deserialize)]
pub struct OneHotErrCase {
    pub base: OneHotCase,
    pub kind: u8, // 0 unseen at transform, 1 non-integer at fit, 2 negative at fit
    pub row: u16,
    pub which: u16,
}

fn strat_onehot_err(_t: Tier) -> BoxedStrategy<OneHotErrCase> {
    ((2usize..=12, 1usize..=6).prop_flat_map(|(n, p)| onehot_case(n, p)), 0u8..3, any::<u16>(), any::<u16>())
        .prop_map(|(base, kind, row, which)| OneHotErrCase { base, kind, row, which })
        .boxed()
}

fn check_onehot_err(case: &OneHotErrCase, ctx: &mut Ctx) -> Result<(), Fail> {
    let b = &case.base;
    if b.cat_idx.is_empty() {
        return Ok(());
    }
    ctx.nontrivial(true);
    let col = b.cat_idx[idx(case.which, b.cat_idx.len())];
    let row = idx(case.row, b.x.r);
    let x = b.x.clone();
    let m = <DenseB as Build<f64>>::build(&x);
    match case.kind {
        0 => {
            ctx.label("unseen-at-transform");
            // a code that does not occur in that column
            let seen = x.col(col);
            let mut code = 0.0;
            while seen.contains(&code) {
                code += 1.0;
            }
            let mut y = x.clone();
            y.set(row, col, code);
            let my = <DenseB as Build<f64>>::build(&y);
            let r = no_panic("onehot/transform-unseen", || {
                let enc = OneHotEncoder::fit(&m, OneHotEncoderParams::from_cat_idx(&b.cat_idx));
                enc.map(|e| e.transform(&my).is_err())
            })?;
            match r {
                Err(e) => fail("onehot/err", format!("valid fit rejected: {}", e)),
                Ok(true) => Ok(()),
                Ok(false) => fail("onehot/unseen-accepted", format!("transform accepted unseen category {} in column {}", code, col)),
            }
        }
        k => {
            ctx.label(if k == 1 { "non-integer-at-fit" } else { "negative-at-fit" });
            let mut y = x.clone();
            y.set(row, col, if k == 1 { y.at(row, col) + 0.5 } else { -1.0 - y.at(row, col) });
            let my = <DenseB as Build<f64>>::build(&y);
            let r = no_panic("onehot/fit-invalid", || OneHotEncoder::fit(&my, OneHotEncoderParams::from_cat_idx(&b.cat_idx)).is_err())?;
            ensure!(r, "onehot/invalid-accepted", "fit accepted value {} in categorical column {}", y.at(row, col), col);
            Ok(())
        }
    }
}

// ------------------------------------------------------------------ category mapper

#[derive(Clone, Debug, Serialize, Deserialize)]
pub struct MapperCase {
    pub cats: Vec<u16>,
    pub strings: bool,
    pub probe: u16,
}

fn strat_mapper(_t: Tier) -> BoxedStrategy<MapperCase> {
    (prop_oneof![vec(0u16..8, 1..40), vec(any::<u16>(), 1..40)], any::<bool>(), any::<u16>())
        .prop_map(|(cats, strings, probe)| MapperCase { cats, strings, probe })
        .boxed()
}

fn mapper_laws<C: std::hash::Hash + Eq + Clone + std::fmt::Debug>(seq: &[C], unseen: Option<C>) -> Result<(), Fail> {
    let mut first: Vec<C> = vec![];
    for c in seq {
        if !first.contains(c) {
            first.push(c.clone());
        }
    }
    let k = first.len();
    let variants: Vec<(&str, CategoryMapper<C>)> = vec![
        ("fit_to_iter", CategoryMapper::fit_to_iter(seq.iter().cloned())),
        ("from_positional_category_vec", CategoryMapper::from_positional_category_vec(first.clone())),
        ("from_category_map", CategoryMapper::from_category_map(first.iter().cloned().enumerate().map(|(i, c)| (c, i)).collect::<HashMap<C, usize>>())),
    ];
    for (name, m) in variants {
        let sig = format!("mapper/{}", name);
        ensure!(m.num_categories() == k, &sig, "{}: num_categories {} expected {}", name, m.num_categories(), k);
        ensure!(m.get_categories() == &first[..], &sig, "{}: categories {:?} expected first-appearance order {:?}", name, m.get_categories(), first);
        for (i, c) in first.iter().enumerate() {
            ensure!(m.get_num(c) == Some(&i), &sig, "{}: get_num({:?}) = {:?}, expected {}", name, c, m.get_num(c), i);
            ensure!(m.get_cat(i) == c, &sig, "{}: get_cat({}) = {:?}", name, i, m.get_cat(i));
            let oh: Option<Vec<f64>> = m.get_one_hot(c);
            let oh = match oh {
                Some(v) => v,
                None => return fail(&sig, format!("{}: get_one_hot({:?}) = None", name, c)),
            };
            let want: Vec<f64> = (0..k).map(|j| if j == i { 1.0 } else { 0.0 }).collect();
            ensure!(oh == want, &sig, "{}: one-hot of {:?} = {:?}", name, c, oh);
            match m.invert_one_hot::<f64, Vec<f64>>(oh) {
                Ok(back) => ensure!(back == *c, &sig, "{}: invert_one_hot(get_one_hot({:?})) = {:?}", name, c, back),
                Err(e) => return fail(&sig, format!("{}: invert_one_hot failed: {}", name, e)),
            }
            let ord: Option<f64> = m.get_ordinal(c);
            ensure!(ord == Some(i as f64), &sig, "{}: get_ordinal({:?}) = {:?}", name, c, ord);
        }
        if let Some(u) = &unseen {
            ensure!(m.get_num(u).is_none(), &sig, "{}: unseen category has an index", name);
            ensure!(m.get_one_hot::<f64, Vec<f64>>(u).is_none(), &sig, "{}: unseen category has a one-hot", name);
            ensure!(m.get_ordinal::<f64>(u).is_none(), &sig, "{}: unseen category has an ordinal", name);
        }
        // not-one-hot vectors are rejected
        ensure!(m.invert_one_hot::<f64, Vec<f64>>(vec![0.0; k]).is_err(), &sig, "{}: all-zero vector inverted", name);
        if k >= 2 {
            ensure!(m.invert_one_hot::<f64, Vec<f64>>(vec![1.0; k]).is_err(), &sig, "{}: all-one vector inverted", name);
        }
    }
    Ok(())
}

fn check_mapper(case: &MapperCase, ctx: &mut Ctx) -> Result<(), Fail> {
    let mut d = case.cats.clone();
    d.sort();
    d.dedup();
    ctx.nontrivial(d.len() >= 2 && d.len() < case.cats.len());
    ctx.label(if case.strings { "strings" } else { "u16" });
    let unseen = (0..=u16::MAX).map(|i| case.probe.wrapping_add(i)).find(|p| !d.contains(p));
    if case.strings {
        let seq: Vec<String> = case.cats.iter().map(|c| format!("cat-{}", c)).collect();
        no_panic("mapper", || mapper_laws(&seq, unseen.map(|u| format!("cat-{}", u))))?
    } else {
        no_panic("mapper", || mapper_laws(&case.cats, unseen))?
    }
}

pub fn property() -> Property {
    Property {
        id: "C18",
        quick_mult: 100,
        rule: "onehot: random n<=40, p<=10, any subset of categorical columns listed in any order, 1..6 categories per column with arbitrary u16 codes, plus the exhaustive enumeration of every plain/1/2/3-category assignment of p<=5 (quick) or p<=6 (thorough) columns with n=4 (index list sorted and reversed); expected matrix built from the definition and compared exactly. non-trivial = at least two categorical columns and a plain column after the second one (onehot), a categorical column exists (errors), >=2 distinct categories with repeats (mapper); distinct = distinct serialised case",
        assumptions: vec![
            "category codes are non-negative integers representable in u16 (the encoder's documented category type)".into(),
            "transform is applied to the matrix the encoder was fitted on (the statement's scope), except for the unseen-value error case".into(),
        ],
        subs: vec![
            sub_enum("onehot", (6000, 150000), strat_onehot, check_onehot, enum_onehot),
            sub("onehot_errors", (2000, 40000), strat_onehot_err, check_onehot_err),
            sub("mapper", (2000, 40000), strat_mapper, check_mapper),
        ],
    }
}
