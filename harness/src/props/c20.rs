//! C20 — all matrix backends give the same answers.
use super::c01;
use super::c02;
use super::c03::{self, MatCase, VecCase};
use crate::engine::*;
use crate::gen::*;
use crate::matops::*;
use crate::oracle::Mat;
use nalgebra::{DMatrix, RowDVector};
use ndarray::{Array1, Array2};
use proptest::prelude::*;
use smartcore::linalg::BaseMatrix;

pub struct NdB;
impl Build<f64> for NdB {
    type M = Array2<f64>;
    const NAME: &'static str = "ndarray";
    fn build(m: &Mat) -> Array2<f64> {
        Array2::from_shape_vec((m.r, m.c), m.d.clone()).unwrap()
    }
    fn build_vec(v: &[f64]) -> Array1<f64> {
        Array1::from(v.to_vec())
    }
}

/// ndarray with a non-standard (column-major) memory layout: built transposed, then axes reversed
pub struct NdFB;
impl Build<f64> for NdFB {
    type M = Array2<f64>;
    const NAME: &'static str = "ndarray-f-layout";
    fn build(m: &Mat) -> Array2<f64> {
        let t = m.t();
        Array2::from_shape_vec((t.r, t.c), t.d.clone()).unwrap().reversed_axes()
    }
    fn build_vec(v: &[f64]) -> Array1<f64> {
        Array1::from(v.to_vec())
    }
}

/// ndarray with the layout chosen per operand (from the operand's own content), so that binary operations
/// frequently meet one operand in standard and the other in column-major layout
pub struct NdMixB;
impl Build<f64> for NdMixB {
    type M = Array2<f64>;
    const NAME: &'static str = "ndarray-mixed-layout";
    fn build(m: &Mat) -> Array2<f64> {
        let key = m.d.iter().fold(m.r as u64 * 31 + m.c as u64, |h, x| h.wrapping_mul(1099511628211).wrapping_add(x.to_bits() >> 40));
        if key % 2 == 0 {
            <NdB as Build<f64>>::build(m)
        } else {
            <NdFB as Build<f64>>::build(m)
        }
    }
    fn build_vec(v: &[f64]) -> Array1<f64> {
        Array1::from(v.to_vec())
    }
}

pub struct NaB;
impl Build<f64> for NaB {
    type M = DMatrix<f64>;
    const NAME: &'static str = "nalgebra";
    fn build(m: &Mat) -> DMatrix<f64> {
        DMatrix::from_row_slice(m.r, m.c, &m.d)
    }
    fn build_vec(v: &[f64]) -> RowDVector<f64> {
        RowDVector::from_vec(v.to_vec())
    }
}

fn outcome_class(r: &Result<Val, String>) -> &'static str {
    match r {
        Ok(_) => "value",
        Err(_) => "panic",
    }
}

fn strat_matop(_t: Tier) -> BoxedStrategy<MatCase> {
    c03::matcase_strategy(8, false)
}

fn check_matop(case: &MatCase, ctx: &mut Ctx) -> Result<(), Fail> {
    let (a, b, op) = (&case.a, &case.b, &case.op);
    let eps = f64::EPSILON;
    ctx.label(op.name());
    let mixed = a.d.iter().any(|x| *x < 0.0) && a.d.iter().any(|x| *x > 0.0);
    ctx.label_if(a.d.iter().all(|x| *x < 0.0), "all-negative");
    ctx.label_if(a.d.iter().all(|x| *x > 0.0), "all-positive");
    ctx.nontrivial(a.r != a.c && mixed);
    let exp = model(op, a, b, eps);
    ctx.label_if(matches!(exp, Expect::Panic), "must-reject");
    let dense = exec::<f64, DenseB>(op, a, b)?;
    let others: Vec<(&str, Result<Val, String>)> = vec![("ndarray", exec::<f64, NdB>(op, a, b)?), ("ndarray-f-layout", exec::<f64, NdFB>(op, a, b)?), ("ndarray-mixed-layout", exec::<f64, NdMixB>(op, a, b)?), ("nalgebra", exec::<f64, NaB>(op, a, b)?)];
    for (name, got) in &others {
        let tag = format!("{}/{}", name, op.name());
        match op {
            Op::Var { .. } | Op::Std { .. } => {
                // same (one-pass) formula on every backend: agreement with the dense result
                match (&dense, got) {
                    (Ok(Val::V(d)), Ok(Val::V(g))) => {
                        ensure!(d.len() == g.len(), format!("{}/differs-from-dense", tag), "length {} vs {}", g.len(), d.len());
                        let sc = a.d.iter().fold(0.0f64, |m, x| m.max(x * x));
                        for i in 0..d.len() {
                            ensure!((d[i] - g[i]).abs() <= 64.0 * eps * (a.r * a.c) as f64 * sc || (d[i].is_nan() && g[i].is_nan()), format!("{}/differs-from-dense", tag), "entry {}: {:e} vs dense {:e}", i, g[i], d[i]);
                        }
                    }
                    (d, g) => ensure!(outcome_class(d) == outcome_class(g), format!("{}/outcome-differs-from-dense", tag), "dense: {:?}, {}: {:?}", d, name, g),
                }
            }
            Op::Argmax => {
                compare(&tag, got, &exp)?;
                // ties: every backend must pick the same column as the dense matrix
                ensure!(*got == dense, format!("{}/differs-from-dense", tag), "argmax {:?} on {}, {:?} on the dense matrix (rows {:?})", got, name, dense, a.rows());
            }
            _ => {
                compare(&tag, got, &exp)?;
                // the dense matrix is a backend too: the same model decides it
                compare(&format!("dense/{}", op.name()), &dense, &exp)?;
                // where the contract leaves the outcome open, the backends must at least agree with each other
                if matches!(exp, Expect::Unspecified) {
                    ensure!(outcome_class(&dense) == outcome_class(got), format!("{}/outcome-differs-from-dense", tag), "dense: {:?}, {}: {:?}", dense, name, got);
                }
            }
        }
    }
    Ok(())
}

// softmax over the whole value range of C03 (magnitudes far beyond exp underflow, all-negative,
// all-positive, astronomically large): the general matop value classes never leave exp's range
fn strat_softmax(t: Tier) -> BoxedStrategy<c03::SoftmaxCase> {
    c03::strat_softmax(t)
}

fn check_softmax(case: &c03::SoftmaxCase, ctx: &mut Ctx) -> Result<(), Fail> {
    let a = &case.a;
    let eps = f64::EPSILON;
    let mx = a.d.iter().cloned().fold(f64::NEG_INFINITY, f64::max);
    ctx.nontrivial(a.d.len() >= 2 && a.d.iter().any(|x| *x != a.d[0]));
    ctx.label_if(mx < 0.0, "all-negative");
    ctx.label_if(mx < -745.0, "all-below-exp-underflow");
    ctx.label_if(a.max_abs() > 40.0, "large-magnitude");
    let b = Mat::zeros(1, 1);
    let exp = model(&Op::Softmax, a, &b, eps);
    for (name, got) in [("ndarray", exec::<f64, NdB>(&Op::Softmax, a, &b)?), ("ndarray-f-layout", exec::<f64, NdFB>(&Op::Softmax, a, &b)?), ("nalgebra", exec::<f64, NaB>(&Op::Softmax, a, &b)?)] {
        let tag = format!("{}/softmax", name);
        c03::softmax_props(&tag, a, &got, eps)?;
        compare(&tag, &got, &exp)?;
    }
    Ok(())
}

fn strat_vecop(_t: Tier) -> BoxedStrategy<VecCase> {
    c03::veccase_strategy(12, false)
}

fn check_vecop(case: &VecCase, ctx: &mut Ctx) -> Result<(), Fail> {
    let (a, b, op) = (&case.a, &case.b, &case.op);
    ctx.label(op.name());
    ctx.nontrivial(a.len() >= 2);
    let exp = vmodel(op, a, b, f64::EPSILON);
    ctx.label_if(matches!(exp, Expect::Panic), "must-reject");
    for (name, got) in [("dense-vec", vexec::<f64, DenseB>(op, a, b)?), ("ndarray", vexec::<f64, NdB>(op, a, b)?), ("nalgebra", vexec::<f64, NaB>(op, a, b)?)] {
        compare(&format!("{}/{}", name, op.name()), &got, &exp)?;
    }
    // variance / std through the vector trait
    for (name, v, s) in [("ndarray", vexec::<f64, NdB>(&VOp::Var, a, b)?, vexec::<f64, NdB>(&VOp::Std, a, b)?), ("nalgebra", vexec::<f64, NaB>(&VOp::Var, a, b)?, vexec::<f64, NaB>(&VOp::Std, a, b)?)] {
        let m = Mat { r: 1, c: a.len(), d: a.clone() };
        check_var(&format!("{}/vvar", name), &m, 1, false, &v, f64::EPSILON, 1e-6)?;
        check_var(&format!("{}/vstd", name), &m, 1, true, &s, f64::EPSILON, 1e-6)?;
    }
    Ok(())
}

// ------------------------------------------------------------------ decompositions on every backend

fn check_lu(case: &c01::DecompCase, ctx: &mut Ctx) -> Result<(), Fail> {
    if case.f32 {
        return Ok(());
    }
    ctx.nontrivial(case.a.r >= 2);
    c01::lu_run::<f64, NdB>(&case.a, &case.b, f64::EPSILON, ctx).map_err(|f| Fail { sig: format!("ndarray/{}", f.sig), msg: f.msg })?;
    c01::lu_run::<f64, NdFB>(&case.a, &case.b, f64::EPSILON, ctx).map_err(|f| Fail { sig: format!("ndarray-f-layout/{}", f.sig), msg: f.msg })?;
    c01::lu_run::<f64, NaB>(&case.a, &case.b, f64::EPSILON, ctx).map_err(|f| Fail { sig: format!("nalgebra/{}", f.sig), msg: f.msg })
}
fn check_qr(case: &c01::DecompCase, ctx: &mut Ctx) -> Result<(), Fail> {
    if case.f32 {
        return Ok(());
    }
    ctx.nontrivial(case.a.c >= 2);
    c01::qr_run::<f64, NdB>(&case.a, &case.b, f64::EPSILON, ctx).map_err(|f| Fail { sig: format!("ndarray/{}", f.sig), msg: f.msg })?;
    c01::qr_run::<f64, NaB>(&case.a, &case.b, f64::EPSILON, ctx).map_err(|f| Fail { sig: format!("nalgebra/{}", f.sig), msg: f.msg })
}
fn check_chol(case: &c01::DecompCase, ctx: &mut Ctx) -> Result<(), Fail> {
    if case.f32 {
        return Ok(());
    }
    ctx.nontrivial(case.a.c >= 2);
    c01::chol_run::<f64, NdB>(&case.a, &case.b, f64::EPSILON, ctx).map_err(|f| Fail { sig: format!("ndarray/{}", f.sig), msg: f.msg })?;
    c01::chol_run::<f64, NaB>(&case.a, &case.b, f64::EPSILON, ctx).map_err(|f| Fail { sig: format!("nalgebra/{}", f.sig), msg: f.msg })
}
fn check_svd(case: &c01::DecompCase, ctx: &mut Ctx) -> Result<(), Fail> {
    if case.f32 {
        return Ok(());
    }
    ctx.nontrivial(case.a.c >= 2 && case.a.r >= 2);
    c01::svd_run::<f64, NdB>(&case.a, &case.b, &case.null, f64::EPSILON, ctx).map_err(|f| Fail { sig: format!("ndarray/{}", f.sig), msg: f.msg })?;
    c01::svd_run::<f64, NdFB>(&case.a, &case.b, &case.null, f64::EPSILON, ctx).map_err(|f| Fail { sig: format!("ndarray-f-layout/{}", f.sig), msg: f.msg })?;
    c01::svd_run::<f64, NaB>(&case.a, &case.b, &case.null, f64::EPSILON, ctx).map_err(|f| Fail { sig: format!("nalgebra/{}", f.sig), msg: f.msg })
}
fn check_evd_sym(case: &c02::EvdCase, ctx: &mut Ctx) -> Result<(), Fail> {
    if case.f32 {
        return Ok(());
    }
    ctx.nontrivial(case.a.c >= 3);
    c02::sym_run::<f64, NdB>(case, &case.a, f64::EPSILON, ctx).map_err(|f| Fail { sig: format!("ndarray/{}", f.sig), msg: f.msg })?;
    c02::sym_run::<f64, NaB>(case, &case.a, f64::EPSILON, ctx).map_err(|f| Fail { sig: format!("nalgebra/{}", f.sig), msg: f.msg })
}
fn check_evd_gen(case: &c02::EvdCase, ctx: &mut Ctx) -> Result<(), Fail> {
    if case.f32 {
        return Ok(());
    }
    ctx.nontrivial(case.a.c >= 3);
    c02::general_run::<f64, NdB>(case, &case.a, f64::EPSILON, ctx).map_err(|f| Fail { sig: format!("ndarray/{}", f.sig), msg: f.msg })?;
    c02::general_run::<f64, NaB>(case, &case.a, f64::EPSILON, ctx).map_err(|f| Fail { sig: format!("nalgebra/{}", f.sig), msg: f.msg })
}

fn small(t: Tier) -> Tier {
    let _ = t;
    Tier::Quick
}
fn s_lu(t: Tier) -> BoxedStrategy<c01::DecompCase> {
    c01::strat_square(small(t))
}
fn s_qr(t: Tier) -> BoxedStrategy<c01::DecompCase> {
    c01::strat_tall(small(t))
}
fn s_chol(t: Tier) -> BoxedStrategy<c01::DecompCase> {
    c01::strat_spd(small(t))
}
fn s_svd(t: Tier) -> BoxedStrategy<c01::DecompCase> {
    c01::strat_any_shape(small(t))
}
fn s_evd_sym(t: Tier) -> BoxedStrategy<c02::EvdCase> {
    c02::strat_sym(small(t))
}
fn s_evd_gen(t: Tier) -> BoxedStrategy<c02::EvdCase> {
    c02::strat_general(small(t))
}

pub fn property() -> Property {
    let mut subs = vec![
        sub("matops", (8000, 300000), strat_matop, check_matop),
        sub("vecops", (3000, 100000), strat_vecop, check_vecop),
        sub("softmax", (1500, 50000), strat_softmax, check_softmax),
        sub("lu", (400, 10000), s_lu, check_lu),
        sub("qr", (400, 10000), s_qr, check_qr),
        sub("cholesky", (400, 10000), s_chol, check_chol),
        sub("svd", (400, 10000), s_svd, check_svd),
        sub("evd_symmetric", (400, 10000), s_evd_sym, check_evd_sym),
        sub("evd_general", (400, 10000), s_evd_gen, check_evd_gen),
    ];
    subs.extend(super::c20e::subs());
    Property {
        id: "C20",
        quick_mult: 24,
        rule: "the same logical matrix is materialised as DenseMatrix<f64>, ndarray::Array2<f64> in standard layout, Array2 in column-major layout (reversed_axes of the transpose), Array2 with the layout chosen per operand (mixed-layout pairs) and nalgebra::DMatrix<f64>; every BaseMatrix / BaseVector / stats / high-order operation is run on all of them for shapes 1..8 x 1..8, the value classes of C03 (mixed, all-negative, all-equal, integers, large) and compatible / incompatible pairings, and compared with the textbook model (so also with each other); the C01 / C02 decomposition checks are re-run on the ndarray and nalgebra backends; the deterministic estimators are fitted on identical generated data on all three backends. non-trivial = non-square operand with mixed signs (matops), length >= 2 (vecops), dimension >= 2 or 3 (decompositions), every case (estimators); distinct = distinct serialised case",
        assumptions: vec![
            "variance / std along an axis are compared between backends (they share the one-pass default implementation, C03's known finding), not with the two-pass reference".into(),
            "where the shape contract leaves an outcome open, the backends are still required to fall in the same outcome class (value / panic) as the dense matrix".into(),
        ],
        subs,
    }
}
