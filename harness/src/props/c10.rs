//! C10 — SVM models: dual feasibility, KKT consistency, kernel expansion; kernels.
use super::c05::Rows;
use crate::engine::*;
use crate::gen::*;
use crate::oracle::{self, Mat};
use proptest::collection::vec;
use proptest::prelude::*;
use serde::{Deserialize, Serialize};
use smartcore::linalg::naive::dense_matrix::DenseMatrix;
use smartcore::svm::svc::{SVCParameters, SVC};
use smartcore::svm::svr::{SVRParameters, SVR};
use smartcore::svm::{Kernel, Kernels};
use smartcore::verif_hooks;

#[derive(Clone, Copy, Debug, PartialEq, Serialize, Deserialize)]
pub enum Kern {
    Linear,
    Rbf { gamma: f64 },
    Poly { degree: f64, gamma: f64, coef0: f64 },
    Sigmoid { gamma: f64, coef0: f64 },
}

impl Kern {
    fn eval(&self, a: &[f64], b: &[f64]) -> f64 {
        match *self {
            Kern::Linear => oracle::dot(a, b),
            Kern::Rbf { gamma } => (-gamma * a.iter().zip(b).map(|(x, y)| (x - y) * (x - y)).sum::<f64>()).exp(),
            Kern::Poly { degree, gamma, coef0 } => (gamma * oracle::dot(a, b) + coef0).powf(degree),
            Kern::Sigmoid { gamma, coef0 } => (gamma * oracle::dot(a, b) + coef0).tanh(),
        }
    }
    fn psd(&self) -> bool {
        !matches!(self, Kern::Sigmoid { .. })
    }
    fn name(&self) -> &'static str {
        match self {
            Kern::Linear => "linear",
            Kern::Rbf { .. } => "rbf",
            Kern::Poly { .. } => "polynomial",
            Kern::Sigmoid { .. } => "sigmoid",
        }
    }
}

fn kern(allow_sigmoid: bool) -> BoxedStrategy<Kern> {
    let mut v: Vec<(u32, BoxedStrategy<Kern>)> = vec![
        (3, Just(Kern::Linear).boxed()),
        (3, pow10(-2, 1).prop_map(|gamma| Kern::Rbf { gamma }).boxed()),
        (2, (1u8..=3, pow10(-2, 0), unit_pos()).prop_map(|(d, gamma, c)| Kern::Poly { degree: d as f64, gamma, coef0: (c * 2.0 * 4.0).round() / 4.0 }).boxed()),
    ];
    if allow_sigmoid {
        v.push((1, (pow10(-2, 0), unit()).prop_map(|(gamma, coef0)| Kern::Sigmoid { gamma, coef0 }).boxed()));
    }
    proptest::strategy::Union::new_weighted(v).boxed()
}

macro_rules! with_kernel {
    ($k:expr, $f:ident, $($arg:expr),*) => {
        match $k {
            Kern::Linear => $f(Kernels::linear(), $($arg),*),
            Kern::Rbf { gamma } => $f(Kernels::rbf(gamma), $($arg),*),
            Kern::Poly { degree, gamma, coef0 } => $f(Kernels::polynomial(degree, gamma, coef0), $($arg),*),
            Kern::Sigmoid { gamma, coef0 } => $f(Kernels::sigmoid(gamma, coef0), $($arg),*),
        }
    };
}

// ------------------------------------------------------------------ SVC

#[derive(Clone, Debug, Serialize, Deserialize)]
pub struct SvcCase {
    pub x: Rows,
    pub y: Vec<f64>,
    pub kernel: Kern,
    pub c: f64,
    pub epoch: usize,
    pub tol: f64,
    pub seeds: Vec<u64>,
    pub fresh: Rows,
    pub layout: String,
}

fn two_class_data(nmin: usize, nmax: usize) -> BoxedStrategy<(String, Rows, Vec<f64>)> {
    (nmin..=nmax, 1usize..=5, prop_oneof![Just(0.3), Just(1.5), Just(4.0)], any::<bool>())
        .prop_flat_map(|(n, p, sep, pm1)| (vec((any::<bool>(), vec(unit(), p)), n), vec(unit(), p), Just(sep), Just(pm1), prop_oneof![Just((-1.0, 1.0)), Just((0.0, 1.0)), Just((2.0, 7.5)), Just((-3.0, -1.0)), Just((1.0, 1.0 + f64::EPSILON)), Just((-2f64.powi(-70), 3.0 * 2f64.powi(-70))), Just((0.0, 1e-16))]))
        .prop_map(|(rows, dir, sep, pm1, pair)| {
            let n = rows.len();
            let mut cls: Vec<bool> = rows.iter().map(|r| r.0).collect();
            if cls.iter().all(|c| *c == cls[0]) {
                cls[n - 1] = !cls[0];
            }
            let (lo, hi) = if pm1 { (-1.0, 1.0) } else { pair };
            let x: Rows = (0..n).map(|i| rows[i].1.iter().zip(&dir).map(|(v, d)| v + d * sep * if cls[i] { 1.0 } else { -1.0 }).collect()).collect();
            let y = cls.iter().map(|c| if *c { hi } else { lo }).collect();
            (if sep >= 4.0 { "separable-ish" } else if sep >= 1.5 { "moderate" } else { "overlapping" }.to_string(), x, y)
        })
        .boxed()
}

fn strat_svc(t: Tier) -> BoxedStrategy<SvcCase> {
    (two_class_data(4, t.pick(50, 80)), kern(true), pow10(-1, 2), 1usize..=4, pow10(-4, -2), any::<u64>())
        .prop_flat_map(|((layout, x, y), kernel, c, epoch, tol, seed)| {
            let p = x[0].len();
            (Just((layout, x, y, kernel, c, epoch, tol, seed)), vec(vec(unit().prop_map(|v| v * 2.0), p), 4))
        })
        .prop_map(|((layout, x, y, kernel, c, epoch, tol, seed), fresh)| SvcCase { x, y, kernel, c, epoch, tol, seeds: vec![seed], fresh, layout })
        .boxed()
}

/// tiny training sets fitted under many visiting orders
fn strat_svc_orders(t: Tier) -> BoxedStrategy<SvcCase> {
    let nseeds = t.pick(60, 400);
    (two_class_data(4, 5), kern(false), pow10(-1, 2), 1usize..=3, any::<u64>())
        .prop_map(move |((layout, x, y), kernel, c, epoch, s0)| SvcCase { x, y, kernel, c, epoch, tol: 1e-3, seeds: (0..nseeds as u64).map(|i| s0.wrapping_add(i.wrapping_mul(0x9E3779B97F4A7C15))).collect(), fresh: vec![], layout })
        .boxed()
}

fn svc_fit<K: Kernel<f64, Vec<f64>> + serde::Serialize + Clone>(k: K, case: &SvcCase, seed: u64) -> Result<Result<(serde_json::Value, Vec<f64>, Vec<f64>), String>, String> {
    let xm = DenseMatrix::from_2d_vec(&case.x);
    let mut all = case.x.clone();
    all.extend(case.fresh.iter().cloned());
    let qm = DenseMatrix::from_2d_vec(&all);
    verif_hooks::set_schedule_seed(Some(seed));
    let r = catch(|| {
        // builder calls in two orders (a setter that rebuilds from the defaults would lose earlier settings)
        let params: SVCParameters<f64, DenseMatrix<f64>, K> = if case.x.len() % 2 == 0 { SVCParameters::default().with_c(case.c).with_epoch(case.epoch).with_tol(case.tol).with_kernel(k) } else { SVCParameters::default().with_kernel(k).with_tol(case.tol).with_epoch(case.epoch).with_c(case.c) };
        // inherent entry points, or (every other case) the generic traits of smartcore::api
        let via_trait = (case.x.len() / 2) % 2 == 1;
        let m: SVC<f64, DenseMatrix<f64>, _> = if via_trait { sup_fit(&xm, &case.y, params) } else { SVC::fit(&xm, &case.y, params) }.map_err(|e| e.to_string())?;
        let v = serde_json::to_value(&m).map_err(|e| e.to_string())?;
        let d = m.decision_function(&qm).map_err(|e| e.to_string())?;
        let p: Vec<f64> = if via_trait { tr_predict(&m, &qm) } else { m.predict(&qm) }.map_err(|e| e.to_string())?;
        Ok((v, d, p))
    });
    verif_hooks::set_schedule_seed(None);
    r
}

fn check_svc(case: &SvcCase, ctx: &mut Ctx) -> Result<(), Fail> {
    let n = case.x.len();
    let mut classes: Vec<f64> = case.y.clone();
    classes.sort_by(|a, b| a.partial_cmp(b).unwrap());
    classes.dedup();
    ctx.label(format!("kernel:{}", case.kernel.name()));
    ctx.label(format!("layout:{}", case.layout));
    ctx.label_if(classes != vec![-1.0, 1.0], "arbitrary-label-pair");
    let mut all = case.x.clone();
    all.extend(case.fresh.iter().cloned());
    let mut support_sets = std::collections::BTreeSet::new();
    let mut nontrivial = false;
    for &seed in &case.seeds {
        let r = with_kernel!(case.kernel, svc_fit, case, seed);
        let (v, dec, pred) = match r {
            Err(p) => return fail("svc/panic", format!("seed {}: panicked: {}", seed, p)),
            Ok(Err(e)) => return fail("svc/err", format!("valid input rejected: {}", e)),
            Ok(Ok(x)) => x,
        };
        let inst: Rows = serde_json::from_value(v["instances"].clone()).map_err(|e| Fail { sig: "svc/json".into(), msg: e.to_string() })?;
        let w: Vec<f64> = serde_json::from_value(v["w"].clone()).map_err(|e| Fail { sig: "svc/non-finite".into(), msg: format!("w does not parse as finite numbers: {} ({})", v["w"], e) })?;
        let b = match v["b"].as_f64() {
            Some(b) => b,
            None => return fail("svc/non-finite", format!("b = {}", v["b"])),
        };
        let jc: Vec<f64> = serde_json::from_value(v["classes"].clone()).unwrap_or_default();
        ensure!(jc == classes, "svc/classes", "classes {:?}, expected {:?}", jc, classes);
        ensure!(inst.len() == w.len(), "svc/shape", "{} instances, {} coefficients", inst.len(), w.len());
        let mut sum = 0.0;
        let (mut at_bound, mut inside) = (0, 0);
        let mut sset = vec![];
        for (i, sv) in inst.iter().enumerate() {
            let matches: Vec<usize> = (0..n).filter(|r| case.x[*r] == *sv).collect();
            ensure!(!matches.is_empty(), "svc/support-vector-not-a-training-row", "seed {}: support vector {:?} is not a training row", seed, sv);
            let ok = matches.iter().any(|r| {
                let s = if case.y[*r] == classes[1] { 1.0 } else { -1.0 };
                let a = s * w[i];
                a >= -1e-12 * case.c && a <= case.c * (1.0 + 1e-12)
            });
            ensure!(ok, "svc/box-constraint", "seed {}: coefficient {} of support vector {:?} (labels of matching rows {:?}) is outside [0, C = {}] in the direction of its class", seed, w[i], sv, matches.iter().map(|r| case.y[*r]).collect::<Vec<_>>(), case.c);
            sum += w[i];
            if w[i].abs() >= case.c * (1.0 - 1e-9) {
                at_bound += 1;
            } else {
                inside += 1;
            }
            sset.push(matches[0]);
        }
        sset.sort();
        support_sets.insert(sset);
        ctx.bound("svc/sum-of-coefficients", sum.abs(), 1e-9 * case.c * n as f64)?;
        if inst.len() >= 3 && at_bound >= 1 && inside >= 1 {
            nontrivial = true;
        }
        // decision function = kernel expansion, prediction = its sign
        for (i, row) in all.iter().enumerate() {
            let terms: Vec<f64> = inst.iter().zip(&w).map(|(sv, wi)| wi * case.kernel.eval(sv, row)).collect();
            let want = b + terms.iter().sum::<f64>();
            let sc = b.abs() + terms.iter().map(|t| t.abs()).sum::<f64>();
            ctx.bound("svc/decision-function", (dec[i] - want).abs(), 1e-10 * sc.max(1e-300))?;
            let want_label = if dec[i] > 0.0 { classes[1] } else { classes[0] };
            ensure!(pred[i] == want_label, "svc/predict-sign", "row {}: decision value {:e} but predicted {}", i, dec[i], pred[i]);
        }
    }
    ctx.count("distinct_support_sets", support_sets.len() as u64);
    ctx.count("fits", case.seeds.len() as u64);
    ctx.nontrivial(nontrivial);
    Ok(())
}

// ------------------------------------------------------------------ SVR

#[derive(Clone, Debug, Serialize, Deserialize)]
pub struct SvrCase {
    pub x: Rows,
    pub y: Vec<f64>,
    pub kernel: Kern,
    pub c: f64,
    pub eps: f64,
    pub tol: f64,
    pub fresh: Rows,
}

fn strat_svr(t: Tier) -> BoxedStrategy<SvrCase> {
    (4usize..=t.pick(40, 80), 1usize..=5)
        .prop_flat_map(|(n, p)| (vec(vec(unit(), p), n), vec(unit(), p), vec(unit(), n), kern(false), pow10(-1, 2), (0u32..=500).prop_map(|e| e as f64 / 1000.0), pow10(-4, -2), vec(vec(unit(), p), 3), pow10(-1, 1)))
        .prop_map(|(mut x, w, noise, kernel, c, eps, tol, fresh, ysc)| {
            // distinct rows by construction: nudge exact duplicates along the first axis
            for i in 0..x.len() {
                let mut k = 1.0;
                while (0..i).any(|j| x[j] == x[i]) {
                    x[i][0] += k / 1024.0;
                    k += 1.0;
                }
            }
            let y: Vec<f64> = x.iter().zip(&noise).map(|(r, e)| (oracle::dot(r, &w) + (r[0] * 3.0).sin() + 0.3 * e) * ysc).collect();
            SvrCase { x, y, kernel, c, eps, tol, fresh }
        })
        .boxed()
}

fn svr_fit<K: Kernel<f64, Vec<f64>> + serde::Serialize + Clone>(k: K, case: &SvrCase) -> Result<Result<(serde_json::Value, Vec<f64>), String>, String> {
    let xm = DenseMatrix::from_2d_vec(&case.x);
    let mut all = case.x.clone();
    all.extend(case.fresh.iter().cloned());
    let qm = DenseMatrix::from_2d_vec(&all);
    catch(|| {
        let params: SVRParameters<f64, DenseMatrix<f64>, K> = if case.x.len() % 2 == 0 { SVRParameters::default().with_c(case.c).with_eps(case.eps).with_tol(case.tol).with_kernel(k) } else { SVRParameters::default().with_kernel(k).with_tol(case.tol).with_eps(case.eps).with_c(case.c) };
        let via_trait = (case.x.len() / 2) % 2 == 1;
        let m: SVR<f64, DenseMatrix<f64>, _> = if via_trait { sup_fit(&xm, &case.y, params) } else { SVR::fit(&xm, &case.y, params) }.map_err(|e| e.to_string())?;
        let v = serde_json::to_value(&m).map_err(|e| e.to_string())?;
        let p: Vec<f64> = if via_trait { tr_predict(&m, &qm) } else { m.predict(&qm) }.map_err(|e| e.to_string())?;
        Ok((v, p))
    })
}

fn check_svr(case: &SvrCase, ctx: &mut Ctx) -> Result<(), Fail> {
    let n = case.x.len();
    ctx.label(format!("kernel:{}", case.kernel.name()));
    ctx.label_if(case.eps == 0.0, "eps=0");
    let r = with_kernel!(case.kernel, svr_fit, case);
    let (v, pred) = match r {
        Err(p) => return fail("svr/panic", format!("panicked: {}", p)),
        Ok(Err(e)) => return fail("svr/err", format!("valid input rejected: {}", e)),
        Ok(Ok(x)) => x,
    };
    let inst: Rows = serde_json::from_value(v["instances"].clone()).map_err(|e| Fail { sig: "svr/json".into(), msg: e.to_string() })?;
    let w: Vec<f64> = serde_json::from_value(v["w"].clone()).map_err(|e| Fail { sig: "svr/non-finite".into(), msg: format!("{} ({})", v["w"], e) })?;
    let b = match v["b"].as_f64() {
        Some(b) => b,
        None => return fail("svr/non-finite", format!("b = {}", v["b"])),
    };
    ensure!(inst.len() == w.len(), "svr/shape", "{} instances, {} coefficients", inst.len(), w.len());
    // per-point coefficient (0 for rows that are not support vectors)
    let mut coef = vec![0.0; n];
    for (i, sv) in inst.iter().enumerate() {
        match (0..n).find(|r| case.x[*r] == *sv) {
            Some(r) => coef[r] += w[i],
            None => return fail("svr/support-vector-not-a-training-row", format!("support vector {:?} is not a training row", sv)),
        }
        ensure!(w[i].abs() <= case.c * (1.0 + 1e-12), "svr/box-constraint", "|w| = {} exceeds C = {}", w[i].abs(), case.c);
    }
    ctx.bound("svr/sum-of-coefficients", w.iter().sum::<f64>().abs(), 1e-9 * case.c * n as f64)?;
    let mut all = case.x.clone();
    all.extend(case.fresh.iter().cloned());
    let yscale = case.y.iter().fold(0.0f64, |m, v| m.max(v.abs())).max(1e-300);
    let f: Vec<f64> = all.iter().map(|row| b + inst.iter().zip(&w).map(|(sv, wi)| wi * case.kernel.eval(sv, row)).sum::<f64>()).collect();
    for i in 0..all.len() {
        let sc = b.abs() + inst.iter().zip(&w).map(|(sv, wi)| (wi * case.kernel.eval(sv, &all[i])).abs()).sum::<f64>();
        ctx.bound("svr/prediction-is-kernel-expansion", (pred[i] - f[i]).abs(), 1e-10 * sc.max(1e-300))?;
    }
    // epsilon-insensitive optimality conditions at every training point
    let tolp = case.tol + 1e-9 * yscale;
    let (mut nb, mut ni) = (0, 0);
    for i in 0..n {
        let e = case.y[i] - f[i];
        let a = coef[i].abs();
        if a == 0.0 {
            ctx.bound("svr/kkt/zero-weight-inside-tube", e.abs() - case.eps, tolp)?;
        } else if a < case.c * (1.0 - 1e-12) {
            ni += 1;
            ctx.bound("svr/kkt/free-point-on-tube-boundary", (e.abs() - case.eps).abs(), tolp)?;
            ensure!(case.eps <= tolp || e.signum() == coef[i].signum(), "svr/kkt/sign", "point {}: residual {:e} and coefficient {:e} have opposite signs", i, e, coef[i]);
        } else {
            nb += 1;
            ctx.bound("svr/kkt/bound-point-outside-tube", case.eps - e.abs(), tolp)?;
            ensure!(e.abs() <= tolp || e.signum() == coef[i].signum(), "svr/kkt/sign", "point {}: residual {:e} and coefficient {:e} have opposite signs", i, e, coef[i]);
        }
    }
    ctx.nontrivial(inst.len() >= 3 && nb >= 1 && ni >= 1);
    Ok(())
}

// ------------------------------------------------------------------ kernels

#[derive(Clone, Debug, Serialize, Deserialize)]
pub struct KernelCase {
    pub pts: Rows,
    pub kernel: Kern,
}

fn strat_kernel(_t: Tier) -> BoxedStrategy<KernelCase> {
    // points with and without a large common offset (the closed forms only depend on differences / inner products)
    (2usize..=14, 1usize..=6)
        .prop_flat_map(|(n, p)| (vec(vec(unit().prop_map(|v| v * 3.0), p), n), kern(true), prop_oneof![3 => Just(0.0), 1 => pow2(4, 27), 1 => pow10(1, 8)], any::<bool>()))
        .prop_map(|(pts, kernel, off, neg)| {
            // offsets only where the kernel value stays in a meaningful range: RBF (differences) and linear (inner products)
            let off = if matches!(kernel, Kern::Rbf { .. } | Kern::Linear) { if neg { -off } else { off } } else { 0.0 };
            KernelCase { pts: pts.iter().map(|r| r.iter().map(|v| v + off).collect()).collect(), kernel }
        })
        .boxed()
}

fn gram<K: Kernel<f64, Vec<f64>>>(k: K, pts: &Rows) -> Result<Mat, String> {
    catch(|| Mat::from_fn(pts.len(), pts.len(), |i, j| k.apply(&pts[i], &pts[j])))
}

fn check_kernel(case: &KernelCase, ctx: &mut Ctx) -> Result<(), Fail> {
    let n = case.pts.len();
    ctx.label(format!("kernel:{}", case.kernel.name()));
    ctx.label_if(case.pts[0][0].abs() > 16.0, "large-common-offset");
    ctx.nontrivial(n >= 3);
    let g = with_kernel!(case.kernel, gram, &case.pts).map_err(|p| Fail { sig: "kernel/panic".into(), msg: p })?;
    for i in 0..n {
        for j in 0..n {
            let want = case.kernel.eval(&case.pts[i], &case.pts[j]);
            // RBF: exp(-gamma d^2) carries the relative rounding of d^2 times gamma d^2 (<= 1e-12 here)
            ctx.bound(&format!("kernel/{}/closed-form", case.kernel.name()), (g.at(i, j) - want).abs(), 1e-12 * (1.0 + want.abs()))?;
            ensure!(!matches!(case.kernel, Kern::Rbf { .. }) || (g.at(i, j) >= 0.0 && g.at(i, j) <= 1.0), "kernel/rbf/range", "RBF kernel value {} outside [0, 1]", g.at(i, j));
            ensure!(g.at(i, j).to_bits() == g.at(j, i).to_bits(), format!("kernel/{}/symmetry", case.kernel.name()), "K(x{},x{}) = {:e} but K(x{},x{}) = {:e}", i, j, g.at(i, j), j, i, g.at(j, i));
        }
    }
    if matches!(case.kernel, Kern::Linear | Kern::Rbf { .. }) {
        let (vals, _) = oracle::jacobi_eig(&g);
        ctx.bound(&format!("kernel/{}/gram-psd", case.kernel.name()), -vals[n - 1], 1e-10 * g.fro())?;
    }
    Ok(())
}

pub fn property() -> Property {
    Property {
        id: "C10",
        quick_mult: 48,
        rule: "two-class sets of 4..50 (quick) / 80 (thorough) rows, 1..5 features, class means 0.3 / 1.5 / 4 noise widths apart, labels {-1,1} or the pairs (0,1), (2,7.5), (-3,-1), (1, 1+eps), (-2^-70, 3*2^-70), (0, 1e-16); C in 1e-1..1e2, epoch 1..4, tol 1e-4..1e-2; linear, RBF (gamma 1e-2..10), polynomial (degree 1..3, coef0 >= 0) and sigmoid kernels; the visiting order of every fit comes from a generated 64-bit schedule seed (hook). svc_orders: 4..5 rows fitted under 60 (quick) / 400 (thorough) different seeds. SVR: 4..40 / 80 pairwise distinct rows, eps 0..0.5, PSD kernels only. Kernels: Gram matrices of 2..14 points. non-trivial = >= 3 support vectors with at least one at the bound and one strictly inside (SVC / SVR), >= 3 points (kernels); distinct = distinct serialised case",
        assumptions: vec![
            "the classifier's random visiting order is replaced by a seeded StdRng under cfg(smartcore_verif); with the hook off it is thread_rng".into(),
            "SVR optimality and termination are asserted for the positive semi-definite kernels only (linear, RBF, polynomial with integer degree and coef0 >= 0); KKT tolerance is tol + 1e-9*max|y|".into(),
            "a fit that never returns is reported by the watchdog as inconclusive (exit 2)".into(),
        ],
        subs: vec![
            sub("svc", (600, 30000), strat_svc, check_svc),
            sub("svc_orders", (60, 1500), strat_svc_orders, check_svc),
            sub("svr", (600, 30000), strat_svr, check_svr),
            sub("kernels", (1500, 40000), strat_kernel, check_kernel),
        ],
    }
}
