//! C04 — exact nearest-neighbour search; k-NN estimators.
use crate::engine::*;
use crate::gen::*;
use crate::matops::{ft, fvec, tf, tvec};
use smartcore::math::num::RealNumber;
use proptest::collection::vec;
use proptest::prelude::*;
use serde::{Deserialize, Serialize};
use smartcore::algorithm::neighbour::cover_tree::CoverTree;
use smartcore::algorithm::neighbour::linear_search::LinearKNNSearch;
use smartcore::algorithm::neighbour::KNNAlgorithmName;
use smartcore::linalg::naive::dense_matrix::DenseMatrix;
use smartcore::math::distance::{Distance, Distances};
use smartcore::neighbors::knn_classifier::{KNNClassifier, KNNClassifierParameters};
use smartcore::neighbors::knn_regressor::{KNNRegressor, KNNRegressorParameters};
use smartcore::neighbors::KNNWeightFunction;

#[derive(Clone, Copy, Debug, PartialEq, Serialize, Deserialize)]
pub enum Metric {
    Euclidian,
    Manhattan,
    Minkowski(u16),
    Hamming,
}

pub type Pts = Vec<Vec<f64>>;

#[derive(Clone, Debug, Serialize, Deserialize)]
pub struct SearchCase {
    pub class: String,
    pub metric: Metric,
    pub data: Pts,
    pub queries: Pts,
    pub ksel: Vec<u16>,
    pub rsel: Vec<u16>,
}

pub fn point_set(nmax: usize) -> BoxedStrategy<(String, Pts)> {
    (1usize..=nmax, 1usize..=6)
        .prop_flat_map(|(n, d)| {
            prop_oneof![
                4 => vec(unit_vec(d), n).prop_map(|p| ("continuous".to_string(), p)),
                4 => vec(vec(small_int(0, 3), d), n).prop_map(|p| ("lattice".to_string(), p)),
                1 => unit_vec(d).prop_map(move |x| ("all-identical".to_string(), vec![x; n])),
                1 => (unit_vec(d), unit_vec(d), vec(-6i32..=6, n)).prop_map(|(a, dir, t)| ("collinear".to_string(), t.iter().map(|t| a.iter().zip(&dir).map(|(x, y)| x + y * *t as f64).collect()).collect())),
                1 => (vec(small_int(0, 6), 1), vec(-6i32..=6, n)).prop_map(move |(_, t)| ("collinear-lattice".to_string(), t.iter().map(|t| (0..d).map(|j| if j % 2 == 0 { *t as f64 } else { -*t as f64 }).collect()).collect())),
                1 => (vec(unit_vec(d), n), vec(any::<u16>(), n)).prop_map(|(p, s)| {
                    // duplicates: every point copies an earlier one with probability 1/2
                    let mut q = p.clone();
                    for i in 1..q.len() {
                        if s[i] % 2 == 0 {
                            q[i] = q[idx(s[i], i)].clone();
                        }
                    }
                    ("duplicates".to_string(), q)
                }),
            ]
        })
        .boxed()
}

fn metric() -> BoxedStrategy<Metric> {
    prop_oneof![4 => Just(Metric::Euclidian), 2 => Just(Metric::Manhattan), 2 => (1u16..=4).prop_map(Metric::Minkowski), 1 => Just(Metric::Hamming)].boxed()
}

fn strat_search(t: Tier) -> BoxedStrategy<SearchCase> {
    (point_set(t.pick(120, 200)), metric(), any::<bool>())
        .prop_flat_map(|((class, data), metric, lattice_q)| {
            let d = data[0].len();
            let n = data.len();
            let fresh = if lattice_q || class.contains("lattice") { vec(vec(small_int(0, 3), d), 4).boxed() } else { vec(unit_vec(d), 4).boxed() };
            (Just((class, data, metric)), fresh, vec(any::<u16>(), 4), vec(any::<u16>(), 8), vec(any::<u16>(), 8)).prop_map(move |((class, data, metric), fresh, insel, ksel, rsel)| {
                let mut queries = fresh;
                for s in insel {
                    queries.push(data[idx(s, n)].clone());
                }
                SearchCase { class, metric, data, queries, ksel, rsel }
            })
        })
        .boxed()
}

/// all multisets (as non-decreasing index sequences) of 1..=smax points of the 3x3 lattice
fn enum_lattice(t: Tier) -> Box<dyn Iterator<Item = SearchCase>> {
    let smax = t.pick(5, 6);
    let lattice: Pts = (0..9).map(|i| vec![(i / 3) as f64, (i % 3) as f64]).collect();
    let mut all: Vec<Vec<usize>> = vec![];
    fn rec(start: usize, left: usize, cur: &mut Vec<usize>, out: &mut Vec<Vec<usize>>) {
        if left == 0 {
            out.push(cur.clone());
            return;
        }
        for i in start..9 {
            cur.push(i);
            rec(i, left - 1, cur, out);
            cur.pop();
        }
    }
    for s in 1..=smax {
        rec(0, s, &mut vec![], &mut all);
    }
    let lat = lattice.clone();
    Box::new(all.into_iter().enumerate().map(move |(num, ms)| {
        // vary the storage order deterministically: reversed for every other multiset
        let mut data: Pts = ms.iter().map(|i| lat[*i].clone()).collect();
        if num % 2 == 1 {
            data.reverse();
        }
        SearchCase { class: "exhaustive-3x3".into(), metric: if num % 3 == 2 { Metric::Manhattan } else { Metric::Euclidian }, data, queries: lat.clone(), ksel: vec![], rsel: vec![] }
    }))
}

type Found = Vec<(usize, f64, Vec<f64>)>;

trait Searcher<T> {
    fn find(&self, q: &Vec<T>, k: usize) -> Result<Result<Found, String>, String>;
    fn find_radius(&self, q: &Vec<T>, r: T) -> Result<Result<Found, String>, String>;
}

macro_rules! impl_searcher {
    ($ty:ident) => {
        impl<T: RealNumber, D: Distance<Vec<T>, T>> Searcher<T> for $ty<Vec<T>, T, D> {
            fn find(&self, q: &Vec<T>, k: usize) -> Result<Result<Found, String>, String> {
                catch(|| $ty::find(self, q, k).map(|v| v.into_iter().map(|(i, d, p)| (i, ft(d), fvec(p))).collect()).map_err(|e| e.to_string()))
            }
            fn find_radius(&self, q: &Vec<T>, r: T) -> Result<Result<Found, String>, String> {
                catch(|| $ty::find_radius(self, q, r).map(|v| v.into_iter().map(|(i, d, p)| (i, ft(d), fvec(p))).collect()).map_err(|e| e.to_string()))
            }
        }
    };
}
impl_searcher!(CoverTree);
impl_searcher!(LinearKNNSearch);

fn validate_entries(tag: &str, data: &Pts, refd: &[f64], found: &Found) -> Result<(), Fail> {
    let mut seen = std::collections::BTreeSet::new();
    for (i, d, p) in found {
        ensure!(*i < data.len(), format!("{}/index-range", tag), "index {} out of range", i);
        ensure!(seen.insert(*i), format!("{}/duplicate-index", tag), "index {} returned twice", i);
        ensure!(d.to_bits() == refd[*i].to_bits(), format!("{}/entry-distance", tag), "entry for index {} carries distance {:e}, true distance {:e}", i, d, refd[*i]);
        ensure!(*p == data[*i], format!("{}/entry-point", tag), "entry for index {} carries point {:?}, data row is {:?}", i, p, data[*i]);
    }
    Ok(())
}

/// Generic over the element type: for f32 the generated points are rounded to f32, the reference distances come
/// from the library's own Distance in f32, and radii are realised f32 distances, their f32 midpoints and beyond.
/// `pfx` is prepended to the signatures of the f32 run.
fn search_with<T: RealNumber, D: Distance<Vec<T>, T>>(case: &SearchCase, dist: D, ctx: &mut Ctx, pfx: &str) -> Result<(), Fail> {
    let data_t: Vec<Vec<T>> = case.data.iter().map(|r| tvec::<T>(r)).collect();
    let queries_t: Vec<Vec<T>> = case.queries.iter().map(|r| tvec::<T>(r)).collect();
    let data64: Pts = data_t.iter().map(|r| fvec(r)).collect();
    let data = &data64;
    let n = data.len();
    let exhaustive = case.ksel.is_empty();
    let mut ties_seen = 0u64;
    for alg0 in ["cover_tree", "linear"] {
        let alg_s = format!("{}{}", pfx, alg0);
        let alg = alg_s.as_str();
        let built: Result<Result<Box<dyn Searcher<T>>, String>, String> = if alg0 == "cover_tree" {
            catch(|| CoverTree::new(data_t.clone(), dist.clone()).map(|t| Box::new(t) as Box<dyn Searcher<T>>).map_err(|e| e.to_string()))
        } else {
            catch(|| LinearKNNSearch::new(data_t.clone(), dist.clone()).map(|t| Box::new(t) as Box<dyn Searcher<T>>).map_err(|e| e.to_string()))
        };
        let s = match built {
            Err(p) => return fail(format!("{}/new/panic", alg), format!("construction over {} points panicked: {}", n, p)),
            Ok(Err(e)) => return fail(format!("{}/new/err", alg), format!("construction failed: {}", e)),
            Ok(Ok(s)) => s,
        };
        for (qi, q) in queries_t.iter().enumerate() {
            let refd: Vec<f64> = data_t.iter().map(|p| ft(dist.distance(q, p))).collect();
            let mut sorted = refd.clone();
            sorted.sort_by(|a, b| a.partial_cmp(b).unwrap());
            let ks: Vec<usize> = if exhaustive { (1..=n).collect() } else { vec![1 + idx(case.ksel[qi % case.ksel.len()], n), n, 1] };
            for k in ks {
                let tag = format!("{}/find", alg);
                let found = match s.find(q, k) {
                    Err(p) => return fail(format!("{}/panic", tag), format!("find(k={}) panicked: {}", k, p)),
                    Ok(Err(e)) => return fail(format!("{}/err", tag), format!("find(k={}) on {} points failed: {}", k, n, e)),
                    Ok(Ok(f)) => f,
                };
                ensure!(found.len() == k, format!("{}/count", tag), "find(k={}) on {} points returned {} entries (query {:?})", k, n, found.len(), q);
                validate_entries(&tag, data, &refd, &found)?;
                let mut got: Vec<f64> = found.iter().map(|e| e.1).collect();
                got.sort_by(|a, b| a.partial_cmp(b).unwrap());
                ensure!(got[..] == sorted[..k], format!("{}/not-nearest", tag), "find(k={}): returned distances {:?}, the k smallest are {:?} (query {:?})", k, got, &sorted[..k], q);
                if k < n && sorted[k - 1] == sorted[k] {
                    ties_seen += 1;
                }
            }
            // radii: realised distances (boundary), midpoints, and beyond
            let mut radii: Vec<f64> = vec![];
            if exhaustive {
                radii.extend([1.0, 2f64.sqrt(), 2.0, 5f64.sqrt(), 8f64.sqrt(), 0.5, 3.0].iter().map(|r| ft::<T>(tf::<T>(*r))));
            } else {
                for t in 0..2 {
                    let a = sorted[idx(case.rsel[(2 * qi + t) % case.rsel.len()], n)];
                    radii.push(a);
                    let b = sorted[idx(case.rsel[(2 * qi + t + 1) % case.rsel.len()], n)];
                    radii.push(ft::<T>(tf::<T>(0.5 * (a + b))));
                }
                radii.push(ft::<T>(tf::<T>(sorted[n - 1] * 2.0 + 1.0)));
            }
            for r in radii {
                if !(r > 0.0) {
                    continue;
                }
                let tag = format!("{}/find_radius", alg);
                let found = match s.find_radius(q, tf::<T>(r)) {
                    Err(p) => return fail(format!("{}/panic", tag), format!("find_radius({}) panicked: {}", r, p)),
                    Ok(Err(e)) => return fail(format!("{}/err", tag), format!("find_radius({}) failed: {}", r, e)),
                    Ok(Ok(f)) => f,
                };
                validate_entries(&tag, data, &refd, &found)?;
                let mut got: Vec<usize> = found.iter().map(|e| e.0).collect();
                got.sort();
                let want: Vec<usize> = (0..n).filter(|i| refd[*i] <= r).collect();
                if got != want {
                    let missing: Vec<usize> = want.iter().filter(|i| !got.contains(i)).cloned().collect();
                    let boundary_only = !missing.is_empty() && got.iter().all(|i| want.contains(i)) && missing.iter().all(|i| refd[*i] == r);
                    return fail(
                        format!("{}/{}", tag, if boundary_only { "boundary-point-missed" } else { "wrong-set" }),
                        format!("find_radius(r={:e}) from {:?} over {:?}: returned indices {:?}, the points within r are {:?}", r, q, data, got, want),
                    );
                }
            }
            // invalid arguments are reported as errors
            for (what, r) in [("k=0", s.find(q, 0)), ("k>n", s.find(q, n + 1)), ("r=0", s.find_radius(q, T::zero())), ("r<0", s.find_radius(q, -T::one()))] {
                match r {
                    Err(p) => return fail(format!("{}/invalid/{}/panic", alg, what), format!("{} panicked instead of returning an error: {}", what, p)),
                    Ok(Ok(_)) => return fail(format!("{}/invalid/{}/accepted", alg, what), format!("{} accepted", what)),
                    Ok(Err(_)) => {}
                }
            }
        }
    }
    ctx.count("queries_with_tie_at_k", ties_seen);
    ctx.label_if(ties_seen > 0, "ties-at-k");
    Ok(())
}

pub fn check_search(case: &SearchCase, ctx: &mut Ctx) -> Result<(), Fail> {
    let n = case.data.len();
    ctx.label(format!("class:{}", case.class));
    ctx.label(format!("metric:{:?}", case.metric));
    ctx.label_if(n == 1, "single-point");
    ctx.nontrivial(if case.ksel.is_empty() { n >= 2 } else { n >= 8 });
    match case.metric {
        Metric::Euclidian => search_with::<f64, _>(case, Distances::euclidian(), ctx, ""),
        Metric::Manhattan => search_with::<f64, _>(case, Distances::manhattan(), ctx, ""),
        Metric::Minkowski(p) => search_with::<f64, _>(case, Distances::minkowski(p), ctx, ""),
        Metric::Hamming => search_with::<f64, _>(case, Distances::hamming(), ctx, ""),
    }
}

/// The same check on the f32 instantiation of both search structures. Every other case is multiplied by 0.1
/// first, so that lattice coordinates are not exactly representable and ties arise from rounded operands.
pub fn check_search_f32(case: &SearchCase, ctx: &mut Ctx) -> Result<(), Fail> {
    let n = case.data.len();
    ctx.label(format!("class:{}", case.class));
    ctx.label(format!("metric:{:?}", case.metric));
    ctx.nontrivial(if case.ksel.is_empty() { n >= 2 } else { n >= 8 });
    let tenth = n % 2 == 1;
    ctx.label_if(tenth, "scaled-by-0.1");
    let sc = |p: &Pts| -> Pts { p.iter().map(|r| r.iter().map(|x| if tenth { x * 0.1 } else { *x }).collect()).collect() };
    let c = SearchCase { class: case.class.clone(), metric: case.metric, data: sc(&case.data), queries: sc(&case.queries), ksel: case.ksel.clone(), rsel: case.rsel.clone() };
    match c.metric {
        Metric::Euclidian => search_with::<f32, _>(&c, Distances::euclidian(), ctx, "f32/"),
        Metric::Manhattan => search_with::<f32, _>(&c, Distances::manhattan(), ctx, "f32/"),
        Metric::Minkowski(p) => search_with::<f32, _>(&c, Distances::minkowski(p), ctx, "f32/"),
        Metric::Hamming => search_with::<f32, _>(&c, Distances::hamming(), ctx, "f32/"),
    }
}

// ------------------------------------------------------------------ estimators

#[derive(Clone, Debug, Serialize, Deserialize)]
pub struct KnnCase {
    pub class: String,
    pub metric: Metric,
    pub data: Pts,
    pub y: Vec<f64>,
    pub queries: Pts,
    pub k: usize,
    pub cover_tree: bool,
    pub distance_weight: bool,
    pub classifier: bool,
}

fn strat_knn(t: Tier) -> BoxedStrategy<KnnCase> {
    (point_set(t.pick(60, 120)), metric(), any::<bool>(), any::<bool>(), any::<bool>(), any::<u16>())
        .prop_flat_map(|((class, data), metric, cover_tree, distance_weight, classifier, ks)| {
            let n = data.len();
            let d = data[0].len();
            let kmin = if classifier { 2 } else { 1 };
            let k = if n >= kmin { kmin + idx(ks, n + 1 - kmin) } else { kmin };
            let ys = if classifier {
                (label_values([-3.5, 0.0, 2.0, 7.25, 100.0]), 2usize..=5, vec(any::<u16>(), n)).prop_map(|(vals, c, s)| s.iter().map(|x| vals[idx(*x, c)]).collect::<Vec<f64>>()).boxed()
            } else {
                prop_oneof![vec(unit(), n), vec(small_int(-2, 2), n)].boxed()
            };
            let fresh = if class.contains("lattice") { vec(vec(small_int(0, 3), d), 3).boxed() } else { vec(unit_vec(d), 3).boxed() };
            (Just((class, data, metric)), ys, fresh, vec(any::<u16>(), 3)).prop_map(move |((class, data, metric), y, fresh, insel)| {
                let mut queries = fresh;
                for s in insel {
                    queries.push(data[idx(s, n)].clone());
                }
                KnnCase { class, metric, data, y, queries, k, cover_tree, distance_weight, classifier }
            })
        })
        .boxed()
}

/// sums of y over m-subsets of `t` (exact enumeration when small, else [min,max] interval)
fn achievable_sums(t: &[f64], m: usize) -> (Vec<f64>, Option<(f64, f64)>) {
    let n = t.len();
    let mut c = 1f64;
    for i in 0..m {
        c = c * (n - i) as f64 / (i + 1) as f64;
    }
    if c <= 5000.0 {
        let mut out = vec![];
        fn rec(t: &[f64], start: usize, left: usize, acc: f64, out: &mut Vec<f64>) {
            if left == 0 {
                out.push(acc);
                return;
            }
            for i in start..=t.len() - left {
                rec(t, i + 1, left - 1, acc + t[i], out);
            }
        }
        rec(t, 0, m, 0.0, &mut out);
        (out, None)
    } else {
        let mut s = t.to_vec();
        s.sort_by(|a, b| a.partial_cmp(b).unwrap());
        (vec![], Some((s[..m].iter().sum(), s[n - m..].iter().sum())))
    }
}

fn knn_with<D: Distance<Vec<f64>, f64>>(case: &KnnCase, dist: D, ctx: &mut Ctx) -> Result<(), Fail> {
    let n = case.data.len();
    let k = case.k;
    let x = DenseMatrix::from_2d_vec(&case.data);
    let q = DenseMatrix::from_2d_vec(&case.queries);
    let alg = if case.cover_tree { KNNAlgorithmName::CoverTree } else { KNNAlgorithmName::LinearSearch };
    let w = if case.distance_weight { KNNWeightFunction::Distance } else { KNNWeightFunction::Uniform };
    let tag = if case.classifier { "knn_classifier" } else { "knn_regressor" };
    let pred: Result<Result<Vec<f64>, String>, String> = if case.classifier {
        catch(|| {
            // builder calls in two orders (a setter that rebuilds from the defaults would lose earlier settings)
            let params = if case.data.len() % 2 == 0 { KNNClassifierParameters::default().with_k(k).with_algorithm(alg.clone()).with_weight(w.clone()).with_distance(dist.clone()) } else { KNNClassifierParameters::default().with_distance(dist.clone()).with_weight(w.clone()).with_algorithm(alg.clone()).with_k(k) };
            // inherent entry points, or (every other case) the generic traits of smartcore::api
            let via_trait = (case.data.len() / 2) % 2 == 1;
            let m: KNNClassifier<f64, D> = if via_trait { sup_fit(&x, &case.y, params) } else { KNNClassifier::fit(&x, &case.y, params) }.map_err(|e| format!("fit: {}", e))?;
            if via_trait { tr_predict(&m, &q) } else { m.predict(&q) }.map_err(|e| format!("predict: {}", e))
        })
    } else {
        catch(|| {
            let params = if case.data.len() % 2 == 0 { KNNRegressorParameters::default().with_k(k).with_algorithm(alg.clone()).with_weight(w.clone()).with_distance(dist.clone()) } else { KNNRegressorParameters::default().with_distance(dist.clone()).with_weight(w.clone()).with_algorithm(alg.clone()).with_k(k) };
            let via_trait = (case.data.len() / 2) % 2 == 1;
            let m: KNNRegressor<f64, D> = if via_trait { sup_fit(&x, &case.y, params) } else { KNNRegressor::fit(&x, &case.y, params) }.map_err(|e| format!("fit: {}", e))?;
            if via_trait { tr_predict(&m, &q) } else { m.predict(&q) }.map_err(|e| format!("predict: {}", e))
        })
    };
    if k > n {
        ctx.label("k>n must be an error");
        return match pred {
            Err(p) => fail(format!("{}/k>n/panic", tag), format!("k={} > n={} panicked: {}", k, n, p)),
            Ok(Ok(_)) => fail(format!("{}/k>n/accepted", tag), format!("k={} > n={} accepted", k, n)),
            Ok(Err(_)) => Ok(()),
        };
    }
    let pred = match pred {
        Err(p) => return fail(format!("{}/panic", tag), format!("n={} k={} {:?}: panicked: {}", n, k, alg, p)),
        Ok(Err(e)) => return fail(format!("{}/err", tag), format!("n={} k={} {:?}: valid input rejected: {}", n, k, alg, e)),
        Ok(Ok(v)) => v,
    };
    ensure!(pred.len() == case.queries.len(), format!("{}/len", tag), "{} predictions for {} rows", pred.len(), case.queries.len());
    let mut tie_queries = 0;
    for (qi, qv) in case.queries.iter().enumerate() {
        let refd: Vec<f64> = case.data.iter().map(|p| dist.distance(qv, p)).collect();
        let mut sorted = refd.clone();
        sorted.sort_by(|a, b| a.partial_cmp(b).unwrap());
        let dk = sorted[k - 1];
        let a: Vec<usize> = (0..n).filter(|i| refd[*i] < dk).collect();
        let t: Vec<usize> = (0..n).filter(|i| refd[*i] == dk).collect();
        let m = k - a.len();
        if t.len() > m {
            tie_queries += 1;
        }
        // weights
        let any_zero_in_found = sorted[0] == 0.0; // the k nearest always include the nearest point
        let weight = |i: usize| -> f64 {
            if !case.distance_weight {
                1.0
            } else if any_zero_in_found {
                if refd[i] == 0.0 {
                    1.0
                } else {
                    0.0
                }
            } else {
                1.0 / refd[i]
            }
        };
        let wt = weight(t[0]);
        let got = pred[qi];
        if case.classifier {
            let mut classes: Vec<f64> = case.y.clone();
            classes.sort_by(|a, b| a.partial_cmp(b).unwrap());
            classes.dedup();
            let ci = |v: f64| classes.iter().position(|c| *c == v);
            let p = match ci(got) {
                Some(p) => p,
                None => return fail(format!("{}/label", tag), format!("predicted label {} is not a training label {:?}", got, classes)),
            };
            let mut base = vec![0.0; classes.len()];
            for &i in &a {
                base[ci(case.y[i]).unwrap()] += weight(i);
            }
            let mut cap = vec![0usize; classes.len()];
            for &i in &t {
                cap[ci(case.y[i]).unwrap()] += 1;
            }
            // most favourable completion for class p
            let xp = m.min(cap[p]);
            let mut val = base.clone();
            val[p] += xp as f64 * wt;
            let mut left = m - xp;
            let mut used = vec![0usize; classes.len()];
            while left > 0 {
                // give the next slot to the non-p class with the lowest value that still has capacity
                let mut best: Option<usize> = None;
                for c in 0..classes.len() {
                    if c != p && used[c] < cap[c] && best.map_or(true, |b| val[c] < val[b]) {
                        best = Some(c);
                    }
                }
                let c = best.expect("capacity accounting");
                val[c] += wt;
                used[c] += 1;
                left -= 1;
            }
            let tot: f64 = val.iter().sum();
            let mx = val.iter().cloned().fold(f64::NEG_INFINITY, f64::max);
            ensure!(
                val[p] >= mx - 1e-9 * tot.max(1e-300),
                format!("{}/not-plurality", tag),
                "query {:?}: predicted class {} cannot be a plurality class of any k={} nearest set: best-case votes {:?} for classes {:?} (weights {:?}, n={})",
                qv,
                got,
                k,
                val,
                classes,
                w,
                n
            );
        } else {
            // prediction = (sum_A w y + wt * S) / (sum_A w + m wt), S a sum of m targets from the tie group
            let sa: f64 = a.iter().map(|i| weight(*i) * case.y[*i]).sum();
            let wa: f64 = a.iter().map(|i| weight(*i)).sum();
            let den = wa + m as f64 * wt;
            let ty: Vec<f64> = t.iter().map(|i| case.y[*i]).collect();
            let (sums, interval) = achievable_sums(&ty, m);
            let scale = case.y.iter().fold(0.0f64, |mx, v| mx.max(v.abs())).max(1e-300);
            let tol = 1e-9 * scale;
            let ok = if den == 0.0 {
                // all weight on exact matches but none among A and T: cannot happen (the nearest point is in the set)
                false
            } else if let Some((lo, hi)) = interval {
                let (plo, phi) = ((sa + wt * lo) / den, (sa + wt * hi) / den);
                got >= plo.min(phi) - tol && got <= plo.max(phi) + tol
            } else {
                sums.iter().any(|s| ((sa + wt * s) / den - got).abs() <= tol)
            };
            ensure!(ok, format!("{}/not-weighted-mean", tag), "query {:?}: prediction {} is not the {:?}-weighted mean over any k={} nearest set (strictly nearer: {} points, tie group: {} points, n={})", qv, got, w, k, a.len(), t.len(), n);
        }
    }
    ctx.count("queries_with_tie_at_k", tie_queries);
    ctx.label_if(tie_queries > 0, "ties-at-k");
    Ok(())
}

fn check_knn(case: &KnnCase, ctx: &mut Ctx) -> Result<(), Fail> {
    let n = case.data.len();
    ctx.label(format!("class:{}", case.class));
    ctx.label(if case.classifier { "classifier" } else { "regressor" });
    ctx.label(if case.cover_tree { "cover_tree" } else { "linear" });
    ctx.label(if case.distance_weight { "distance-weight" } else { "uniform-weight" });
    ctx.label_if(n == 1, "single-point");
    ctx.nontrivial(n >= 8 && case.k > 1 && case.k < n);
    match case.metric {
        Metric::Euclidian => knn_with(case, Distances::euclidian(), ctx),
        Metric::Manhattan => knn_with(case, Distances::manhattan(), ctx),
        Metric::Minkowski(p) => knn_with(case, Distances::minkowski(p), ctx),
        Metric::Hamming => knn_with(case, Distances::hamming(), ctx),
    }
}

// ------------------------------------------------------------------ invalid estimator settings

#[derive(Clone, Debug, Serialize, Deserialize)]
pub struct KnnBadCase {
    pub n: usize,
    pub kind: u8,
    pub cover_tree: bool,
}

fn strat_knn_bad(_t: Tier) -> BoxedStrategy<KnnBadCase> {
    (1usize..=12, 0u8..6, any::<bool>()).prop_map(|(n, kind, cover_tree)| KnnBadCase { n: if kind < 4 { n.max(2) } else { n }, kind, cover_tree }).boxed()
}

fn check_knn_bad(case: &KnnBadCase, ctx: &mut Ctx) -> Result<(), Fail> {
    ctx.nontrivial(true);
    let n = case.n;
    let data: Pts = (0..n).map(|i| vec![i as f64, (i * i % 5) as f64]).collect();
    let x = DenseMatrix::from_2d_vec(&data);
    let y: Vec<f64> = (0..n).map(|i| (i % 2) as f64).collect();
    let alg = if case.cover_tree { KNNAlgorithmName::CoverTree } else { KNNAlgorithmName::LinearSearch };
    let r: Result<bool, String> = match case.kind {
        0 => catch(|| KNNClassifier::fit(&x, &y, KNNClassifierParameters::default().with_k(0).with_algorithm(alg.clone())).is_err()),
        1 => catch(|| KNNClassifier::fit(&x, &y, KNNClassifierParameters::default().with_k(1).with_algorithm(alg.clone())).is_err()),
        2 => catch(|| KNNRegressor::fit(&x, &y, KNNRegressorParameters::default().with_k(0).with_algorithm(alg.clone())).is_err()),
        3 => {
            let y2: Vec<f64> = (0..n + 1).map(|i| i as f64).collect();
            catch(|| KNNRegressor::fit(&x, &y2, KNNRegressorParameters::default().with_k(2).with_algorithm(alg.clone())).is_err() && KNNClassifier::fit(&x, &y2, KNNClassifierParameters::default().with_k(2).with_algorithm(alg.clone())).is_err())
        }
        // more neighbours configured than training rows (n = 1..12, including the default k = 3 on one or two
        // points): an error must be reported by fit or, at the latest, by predict - never a prediction
        4 => catch(|| match KNNRegressor::fit(&x, &y, KNNRegressorParameters::default().with_k(n + 1 + n % 3).with_algorithm(alg.clone())) {
            Err(_) => true,
            Ok(m) => m.predict(&x).is_err(),
        }),
        _ => catch(|| match KNNClassifier::fit(&x, &y, KNNClassifierParameters::default().with_k(n + 1 + n % 3).with_algorithm(alg.clone())) {
            Err(_) => true,
            Ok(m) => m.predict(&x).is_err(),
        }),
    };
    let what = ["classifier k=0", "classifier k=1", "regressor k=0", "x/y length mismatch", "regressor k>n", "classifier k>n"][case.kind as usize];
    match r {
        Err(p) => fail(format!("knn/invalid/{}/panic", what), format!("{} panicked: {}", what, p)),
        Ok(false) => fail(format!("knn/invalid/{}/accepted", what), format!("{} accepted", what)),
        Ok(true) => Ok(()),
    }
}

// ------------------------------------------------------------------ the selection structure in isolation (hook H1)

#[derive(Clone, Debug, Serialize, Deserialize)]
pub struct HeapCase {
    pub k: usize,
    pub values: Vec<i32>,
    /// true: the usage pattern of the linear scan (k sentinels, then overwrite the root + heapify)
    pub replace_root: bool,
}

fn strat_heap(_t: Tier) -> BoxedStrategy<HeapCase> {
    (1usize..=12, prop_oneof![vec(-5i32..=5, 0..40), vec(-1000i32..=1000, 0..40)], any::<bool>()).prop_map(|(k, values, replace_root)| HeapCase { k, values, replace_root }).boxed()
}

fn check_heap(case: &HeapCase, ctx: &mut Ctx) -> Result<(), Fail> {
    use smartcore::verif_hooks::HeapSelection;
    let k = case.k;
    ctx.nontrivial(case.values.len() > k && k >= 2);
    ctx.label(if case.replace_root { "peek_mut+heapify" } else { "add" });
    let vals: Vec<f64> = case.values.iter().map(|v| *v as f64 * 0.5).collect();
    let mut sorted = vals.clone();
    sorted.sort_by(|a, b| a.partial_cmp(b).unwrap());
    let r = no_panic("heap_selection", || {
        let mut h = HeapSelection::<f64>::with_capacity(k);
        let mut peeks = vec![];
        if case.replace_root {
            for _ in 0..k {
                h.add(f64::INFINITY);
            }
            for v in &vals {
                let top = h.peek_mut();
                if *v < *top {
                    *top = *v;
                    h.heapify();
                }
                peeks.push(*h.peek());
            }
        } else {
            for v in &vals {
                h.add(*v);
                peeks.push(*h.peek());
            }
        }
        (peeks, h.get())
    })?;
    let (peeks, mut kept) = r;
    kept.sort_by(|a, b| a.partial_cmp(b).unwrap());
    let n = vals.len();
    // after i+1 insertions the structure holds the min(i+1,k) smallest so far and peek() is the largest of them
    let mut so_far: Vec<f64> = vec![];
    for i in 0..n {
        so_far.push(vals[i]);
        so_far.sort_by(|a, b| a.partial_cmp(b).unwrap());
        let want = if i + 1 >= k { so_far[k - 1] } else if case.replace_root { f64::INFINITY } else { so_far[i] };
        ensure!(peeks[i] == want, "heap_selection/peek", "k={} after inserting {:?}: peek() = {}, the largest of the {} smallest is {}", k, &vals[..=i], peeks[i], k.min(i + 1), want);
    }
    let want_kept: Vec<f64> = if case.replace_root { let mut w: Vec<f64> = sorted.iter().cloned().take(k).collect(); while w.len() < k { w.push(f64::INFINITY); } w } else { sorted.iter().cloned().take(k).collect() };
    ensure!(kept == want_kept, "heap_selection/contents", "k={} values {:?}: kept {:?}, the k smallest are {:?}", k, vals, kept, want_kept);
    Ok(())
}

pub fn property() -> Property {
    Property {
        id: "C04",
        quick_mult: 20,
        rule: "point sets of 1..120 (quick) / 200 (thorough) points in 1..6 dimensions: continuous dyadic, {0..3}^d lattice (ties, duplicates), all identical, collinear, duplicated rows; queries in- and out-of-sample; k from 1..n plus k=1 and k=n; radii equal to realised distances, between them and beyond; Euclidean / Manhattan / Minkowski(1..4) / Hamming; both algorithms; plus the exhaustive enumeration of every multiset of <= 5 (quick) / 6 (thorough) points of the 3x3 lattice with all 9 lattice queries, all k and 7 radii. Estimators: both algorithms x both weightings x classifier / regressor with arbitrary real labels. non-trivial = n >= 8 (random search), n >= 2 (exhaustive), n >= 8 and 1 < k < n (estimators); distinct = distinct serialised case",
        assumptions: vec![
            "the reference distances are obtained by calling the library's own Distance::distance on every (query, point) pair (the metrics themselves are pinned by C17), so ties and the radius boundary are decided exactly".into(),
            "any tie-break among equidistant points is accepted; the estimator oracle accepts a prediction iff it is the plurality class / weighted mean of some k-nearest set".into(),
        ],
        subs: vec![
            sub_enum("search", (1500, 40000), strat_search, check_search, enum_lattice),
            sub_enum("search_f32", (700, 20000), strat_search, check_search_f32, enum_lattice),
            sub("knn_estimators", (3000, 80000), strat_knn, check_knn),
            sub("knn_invalid", (200, 2000), strat_knn_bad, check_knn_bad),
            sub("heap_selection", (1500, 40000), strat_heap, check_heap),
        ],
    }
}
