pub mod c01;
pub mod c02;
pub mod c03;
pub mod c04;
pub mod c05;
pub mod c06;
pub mod c07;
pub mod c08;
pub mod c09;
pub mod c10;
pub mod c11;
pub mod c12;
pub mod c13;
pub mod c14;
pub mod c15;
pub mod c16;
pub mod c17;
pub mod c18;
pub mod c19;
pub mod c20;
pub mod c20e;

use crate::engine::Property;

pub fn all() -> Vec<Property> {
    vec![c01::property(), c02::property(), c03::property(), c04::property(), c05::property(), c06::property(), c07::property(), c08::property(), c09::property(), c10::property(), c11::property(), c12::property(), c13::property(), c14::property(), c15::property(), c16::property(), c17::property(), c18::property(), c19::property(), c20::property()]
}

pub fn by_id(id: &str) -> Option<Property> {
    all().into_iter().find(|p| p.id == id)
}
