pub mod c03;

use crate::engine::Property;

pub fn all() -> Vec<Property> {
    vec![c03::property()]
}

pub fn by_id(id: &str) -> Option<Property> {
    all().into_iter().find(|p| p.id == id)
}
