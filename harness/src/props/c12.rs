//! C12 — k-means bookkeeping and the filtering-tree assignment step.
use super::c04::Pts;
use crate::engine::*;
use crate::gen::*;
use proptest::collection::vec;
use proptest::prelude::*;
use serde::{Deserialize, Serialize};
use smartcore::cluster::kmeans::{KMeans, KMeansParameters};
use smartcore::linalg::naive::dense_matrix::DenseMatrix;
use smartcore::verif_hooks;

fn sqd(a: &[f64], b: &[f64]) -> f64 {
    a.iter().zip(b).map(|(x, y)| (x - y) * (x - y)).sum()
}

/// data sets with at least `k` distinct rows (constructed: the first k rows are made pairwise distinct)
fn data_set(nmax: usize) -> BoxedStrategy<(String, Pts)> {
    (2usize..=nmax, 1usize..=6)
        .prop_flat_map(|(n, d)| {
            prop_oneof![
                3 => vec(unit_vec(d), n).prop_map(|p| ("continuous".to_string(), p)),
                3 => vec(vec(small_int(0, 3), d), n).prop_map(|p| ("lattice".to_string(), p)),
                2 => (vec(vec(small_int(-8, 8), d), 4), vec((any::<u16>(), unit_vec(d)), n)).prop_map(move |(c, o)| ("blobs".to_string(), o.iter().map(|(s, off)| (0..d).map(|j| c[idx(*s, 4)][j] + 0.5 * off[j]).collect()).collect())),
                1 => (vec(unit_vec(d), n), vec(any::<u16>(), n)).prop_map(|(p, s)| {
                    let mut q = p.clone();
                    for i in 1..q.len() {
                        if s[i] % 2 == 0 {
                            q[i] = q[idx(s[i], i)].clone();
                        }
                    }
                    ("duplicates".to_string(), q)
                }),
            ]
        })
        .boxed()
}

fn distinct_rows(p: &Pts) -> usize {
    let mut v: Vec<Vec<u64>> = p.iter().map(|r| r.iter().map(|x| x.to_bits()).collect()).collect();
    v.sort();
    v.dedup();
    v.len()
}

#[derive(Clone, Debug, Serialize, Deserialize)]
pub struct FitCase {
    pub class: String,
    pub data: Pts,
    pub k: usize,
    pub max_iter: usize,
    pub seed: u64,
    pub queries: Pts,
}

fn strat_fit(t: Tier) -> BoxedStrategy<FitCase> {
    (data_set(t.pick(150, 300)), 2usize..=8, prop_oneof![1usize..=3, 1usize..=100], any::<u64>())
        .prop_flat_map(|((class, mut data), k, max_iter, seed)| {
            // guarantee >= k distinct rows by construction: displace the leading rows along the first axis
            let n = data.len();
            let k = k.min(n);
            let mut t = 0.0;
            while distinct_rows(&data) < k {
                for i in 0..k {
                    data[i][0] += (i as f64) * (17.0 + t);
                }
                t += 1.0;
            }
            let d = data[0].len();
            (Just((class, data, k.max(2), max_iter, seed)), vec(unit_vec(d).prop_map(|v| v.iter().map(|x| x * 4.0).collect::<Vec<f64>>()), 4))
        })
        .prop_flat_map(|((class, data, k, max_iter, seed), queries)| {
            // one case in four: rows and queries translated exactly by +-2^e per coordinate (see strat_bbd)
            let d = data[0].len();
            (Just((class, data, k, max_iter, seed, queries)), prop_oneof![3 => Just(None), 1 => (8i32..=27, vec(any::<bool>(), d)).prop_map(Some)])
        })
        .prop_map(|((class, data, k, max_iter, seed, queries), shift)| match shift {
            None => FitCase { class, data, k, max_iter, seed, queries },
            Some((e, neg)) => {
                let o: Vec<f64> = neg.iter().map(|n| if *n { -(2f64.powi(e)) } else { 2f64.powi(e) }).collect();
                let tr = |p: &Pts| -> Pts { p.iter().map(|r| r.iter().zip(&o).map(|(x, s)| x + s).collect()).collect() };
                FitCase { class: format!("{}+offset", class), data: tr(&data), k, max_iter, seed, queries: tr(&queries) }
            }
        })
        .boxed()
}

fn check_fit(case: &FitCase, ctx: &mut Ctx) -> Result<(), Fail> {
    let n = case.data.len();
    let d = case.data[0].len();
    let k = case.k;
    ctx.label(format!("class:{}", case.class));
    ctx.label_if(case.max_iter <= 3, "max_iter<=3");
    let nd = distinct_rows(&case.data);
    if nd < k {
        ctx.label("fewer than k distinct rows (outside the domain)");
        return Ok(());
    }
    ctx.nontrivial(k >= 3 && n >= 20 && nd >= 8);
    let x = DenseMatrix::from_2d_vec(&case.data);
    let mut all_q = case.data.clone();
    all_q.extend(case.queries.iter().cloned());
    let q = DenseMatrix::from_2d_vec(&all_q);
    verif_hooks::set_schedule_seed(Some(case.seed));
    let r = catch(|| {
        let params = if n % 2 == 0 { KMeansParameters::default().with_k(k).with_max_iter(case.max_iter) } else { KMeansParameters::default().with_max_iter(case.max_iter).with_k(k) };
        // inherent entry points, or (every other case) the generic traits of smartcore::api
        let via_trait = (n / 2) % 2 == 1;
        let m: KMeans<f64> = if via_trait { unsup_fit(&x, params) } else { KMeans::fit(&x, params) }.map_err(|e| format!("fit: {}", e))?;
        let v = serde_json::to_value(&m).map_err(|e| format!("serialise: {}", e))?;
        let p: Vec<f64> = if via_trait { tr_predict(&m, &q) } else { m.predict(&q) }.map_err(|e| format!("predict: {}", e))?;
        Ok::<_, String>((v, p))
    });
    verif_hooks::set_schedule_seed(None);
    let (v, pred) = match r {
        Err(p) => return fail("kmeans/panic", format!("n={} k={} max_iter={} seed={}: panicked: {}", n, k, case.max_iter, case.seed, p)),
        Ok(Err(e)) => return fail("kmeans/err", format!("valid input rejected: {}", e)),
        Ok(Ok(x)) => x,
    };
    let cents: Vec<Vec<f64>> = match serde_json::from_value(v["centroids"].clone()) {
        Ok(c) => c,
        Err(_) => return fail("kmeans/non-finite-centroid", format!("centroids do not parse as finite numbers: {}", v["centroids"])),
    };
    let size: Vec<usize> = serde_json::from_value(v["size"].clone()).map_err(|e| Fail { sig: "kmeans/json".into(), msg: e.to_string() })?;
    let y: Vec<usize> = serde_json::from_value(v["_y"].clone()).map_err(|e| Fail { sig: "kmeans/json".into(), msg: e.to_string() })?;
    ensure!(v["k"].as_u64() == Some(k as u64) && cents.len() == k && size.len() == k, "kmeans/k", "k = {}, {} centroids, {} sizes (requested {})", v["k"], cents.len(), size.len(), k);
    ensure!(cents.iter().all(|c| c.len() == d && c.iter().all(|x| x.is_finite())), "kmeans/non-finite-centroid", "centroids {:?}", cents);
    ensure!(y.len() == n && y.iter().all(|c| *c < k), "kmeans/assignment-range", "assignment vector {:?}", y);
    let mut cnt = vec![0usize; k];
    for c in &y {
        cnt[*c] += 1;
    }
    ensure!(cnt == size, "kmeans/size", "reported sizes {:?}, counts of the stored assignment {:?}", size, cnt);
    ensure!(size.iter().sum::<usize>() == n, "kmeans/size-sum", "sizes sum to {} for {} rows", size.iter().sum::<usize>(), n);
    let scale = case.data.iter().flatten().fold(0.0f64, |m, x| m.max(x.abs())).max(1e-300);
    let extent = (0..d)
        .map(|j| {
            let (lo, hi) = all_q.iter().fold((f64::INFINITY, f64::NEG_INFINITY), |(lo, hi), r| (lo.min(r[j]), hi.max(r[j])));
            hi - lo
        })
        .fold(0.0f64, f64::max);
    ctx.label_if(scale > 200.0, "large-common-offset");
    let mut empty = 0;
    for c in 0..k {
        if size[c] == 0 {
            empty += 1;
            continue;
        }
        for j in 0..d {
            let mean = (0..n).filter(|i| y[*i] == c).map(|i| case.data[i][j]).sum::<f64>() / size[c] as f64;
            // a mean of n numbers of magnitude <= scale carries at most n * eps * scale of rounding error
            ctx.bound("kmeans/centroid-is-mean", (cents[c][j] - mean).abs(), 64.0 * f64::EPSILON * n as f64 * scale)?;
        }
    }
    ctx.label_if(empty > 0, "has-empty-cluster");
    // predict: a centroid at minimal distance
    ensure!(pred.len() == all_q.len(), "kmeans/predict-len", "{} predictions", pred.len());
    for (i, row) in all_q.iter().enumerate() {
        let p = pred[i];
        ensure!(p >= 0.0 && p.fract() == 0.0 && (p as usize) < k, "kmeans/predict-range", "prediction {}", p);
        let ds: Vec<f64> = cents.iter().map(|c| sqd(row, c)).collect();
        let mn = ds.iter().cloned().fold(f64::INFINITY, f64::min);
        ensure!(ds[p as usize] <= mn + 1e-12 * (mn + scale * extent * d as f64), "kmeans/predict-not-nearest", "row {:?} assigned to centroid {} at squared distance {:e}, nearest is at {:e}", row, p, ds[p as usize], mn);
    }
    Ok(())
}

// ------------------------------------------------------------------ the assignment step

#[derive(Clone, Debug, Serialize, Deserialize)]
pub struct BbdCase {
    pub class: String,
    pub data: Pts,
    pub centroids: Pts,
    pub centroid_class: String,
}

fn strat_bbd(t: Tier) -> BoxedStrategy<BbdCase> {
    (data_set(t.pick(150, 300)), 1usize..=8, 0u8..6)
        .prop_flat_map(|((class, data), k, cc)| {
            let n = data.len();
            let d = data[0].len();
            let cents: BoxedStrategy<(String, Pts)> = match cc {
                0 => vec(any::<u16>(), k).prop_map({
                    let data = data.clone();
                    move |s| ("data-rows".to_string(), s.iter().map(|x| data[idx(*x, n)].clone()).collect())
                }).boxed(),
                1 => vec(unit_vec(d), k).prop_map(|c| ("random".to_string(), c.iter().map(|v| v.iter().map(|x| x * 4.0).collect()).collect())).boxed(),
                2 => (unit_vec(d), 1usize..=k).prop_map(move |(c, rep)| {
                    // coincident centroids
                    let mut v: Pts = vec![c.clone(); rep];
                    while v.len() < k {
                        v.push(c.iter().map(|x| x + v.len() as f64).collect());
                    }
                    ("coincident".to_string(), v)
                }).boxed(),
                3 => vec(unit_vec(d), k).prop_map(|c| ("far-outside".to_string(), c.iter().map(|v| v.iter().map(|x| 100.0 + x * 50.0).collect()).collect())).boxed(),
                4 => vec(vec((0i32..=6).prop_map(|x| x as f64 * 0.5), d), k).prop_map(|c| ("lattice-midpoints".to_string(), c)).boxed(),
                _ => (vec(any::<u16>(), k), vec(unit_vec(d), k)).prop_map({
                    let data = data.clone();
                    move |(s, o)| ("near-data-rows".to_string(), s.iter().zip(&o).map(|(x, off)| data[idx(*x, n)].iter().zip(off).map(|(a, b)| a + 0.125 * b).collect()).collect())
                }).boxed(),
            };
            (Just((class, data)), cents)
        })
        .prop_flat_map(|((class, data), (centroid_class, centroids))| {
            // one case in three: the whole configuration (rows and centroids) translated by a large
            // common offset +-2^e per coordinate.  All generated values are dyadic with <= 13
            // fractional bits and magnitude < 2^8, so the translation is exact and every exact
            // squared distance is unchanged; only code that forms x^2 - y^2 instead of (x - y)^2 notices.
            let d = data[0].len();
            (Just((class, data, centroid_class, centroids)), prop_oneof![2 => Just(None), 1 => (8i32..=27, vec(any::<bool>(), d)).prop_map(Some)])
        })
        .prop_map(|((class, data, centroid_class, centroids), shift)| match shift {
            None => BbdCase { class, data, centroids, centroid_class },
            Some((e, neg)) => {
                let o: Vec<f64> = neg.iter().map(|n| if *n { -(2f64.powi(e)) } else { 2f64.powi(e) }).collect();
                let tr = |p: &Pts| -> Pts { p.iter().map(|r| r.iter().zip(&o).map(|(x, s)| x + s).collect()).collect() };
                BbdCase { class: format!("{}+offset", class), data: tr(&data), centroids: tr(&centroids), centroid_class }
            }
        })
        .boxed()
}

pub fn check_bbd(case: &BbdCase, ctx: &mut Ctx) -> Result<(), Fail> {
    let n = case.data.len();
    let d = case.data[0].len();
    let k = case.centroids.len();
    ctx.label(format!("class:{}", case.class));
    ctx.label(format!("centroids:{}", case.centroid_class));
    ctx.nontrivial(k >= 3 && n >= 20 && distinct_rows(&case.data) >= 8);
    let x = DenseMatrix::from_2d_vec(&case.data);
    let r = no_panic("bbd_clustering", || verif_hooks::bbd_clustering(&x, &case.centroids))?;
    ensure!(r.membership.len() == n && r.counts.len() == k && r.sums.len() == k, "bbd/shape", "shapes");
    // error scale of a squared distance evaluated in difference form on translated data:
    // |x| * (extent of the configuration) per coordinate; for untranslated data this is ~ max x^2
    let maxabs = case.data.iter().chain(case.centroids.iter()).flatten().fold(0.0f64, |m, x| m.max(x.abs())).max(1e-300);
    let extent = (0..d)
        .map(|j| {
            let (lo, hi) = case.data.iter().chain(case.centroids.iter()).fold((f64::INFINITY, f64::NEG_INFINITY), |(lo, hi), r| (lo.min(r[j]), hi.max(r[j])));
            hi - lo
        })
        .fold(0.0f64, f64::max);
    let scale2 = (maxabs * extent).max(1e-300) * d as f64;
    ctx.label_if(maxabs > 200.0, "large-common-offset");
    let mut exhaustive = 0.0;
    let mut by_membership = 0.0;
    let mut cnt = vec![0usize; k];
    let mut sums = vec![vec![0.0; d]; k];
    let mut ties = 0;
    for i in 0..n {
        let m = r.membership[i];
        ensure!(m < k, "bbd/membership-range", "row {} assigned to centroid {}", i, m);
        let ds: Vec<f64> = case.centroids.iter().map(|c| sqd(&case.data[i], c)).collect();
        let mn = ds.iter().cloned().fold(f64::INFINITY, f64::min);
        if ds.iter().filter(|x| **x == mn).count() > 1 {
            ties += 1;
        }
        ensure!(ds[m] <= mn + 1e-12 * scale2, "bbd/not-nearest", "row {} = {:?} attached to centroid {} at squared distance {:e}; the nearest centroid is at {:e} (centroids {:?})", i, case.data[i], m, ds[m], mn, case.centroids);
        exhaustive += mn;
        by_membership += ds[m];
        cnt[m] += 1;
        for j in 0..d {
            sums[m][j] += case.data[i][j];
        }
    }
    ctx.count("rows_with_exact_tie", ties);
    ensure!(cnt == r.counts, "bbd/counts", "counts {:?}, membership gives {:?}", r.counts, cnt);
    for c in 0..k {
        for j in 0..d {
            ctx.bound("bbd/sums", (r.sums[c][j] - sums[c][j]).abs(), 1e-9 * maxabs * (n as f64))?;
        }
    }
    ctx.bound("bbd/distortion-vs-membership", (r.distortion - by_membership).abs(), 1e-9 * (by_membership + scale2 * n as f64 * 1e-3))?;
    ctx.bound("bbd/distortion-vs-exhaustive", (r.distortion - exhaustive).abs(), 1e-9 * (exhaustive + scale2 * n as f64 * 1e-3))?;
    Ok(())
}

#[derive(Clone, Debug, Serialize, Deserialize)]
pub struct BadCase {
    pub k: usize,
    pub max_iter: usize,
}

fn strat_bad(_t: Tier) -> BoxedStrategy<BadCase> {
    prop_oneof![(0usize..2, 1usize..10).prop_map(|(k, m)| BadCase { k, max_iter: m }), (2usize..5).prop_map(|k| BadCase { k, max_iter: 0 })].boxed()
}

fn check_bad(case: &BadCase, ctx: &mut Ctx) -> Result<(), Fail> {
    ctx.nontrivial(true);
    let x = DenseMatrix::from_2d_array(&[&[0.0, 0.0], &[1.0, 0.0], &[0.0, 1.0], &[5.0, 5.0], &[6.0, 5.0]]);
    let r = no_panic("kmeans/invalid", || KMeans::fit(&x, KMeansParameters::default().with_k(case.k).with_max_iter(case.max_iter)).is_err())?;
    ensure!(r, "kmeans/invalid-accepted", "k = {} max_iter = {} accepted", case.k, case.max_iter);
    Ok(())
}

pub fn property() -> Property {
    Property {
        id: "C12",
        quick_mult: 60,
        rule: "data sets of 2..150 (quick) / 300 (thorough) rows in 1..6 dimensions: continuous, {0..3}^d lattice, blobs, duplicated rows, with at least k distinct rows by construction; k in 2..8, max_iter 1..100, a generated 64-bit seed for the k-means++ draw (hook); for the assignment step 1..8 centroids that are data rows, random, coincident, far outside the data, lattice midpoints (exact ties) or near data rows. non-trivial = k >= 3, n >= 20 and >= 8 distinct rows; distinct = distinct serialised case",
        assumptions: vec![
            "the random initialisation is put under harness control by the cfg(smartcore_verif) schedule-seed hook in kmeans_plus_plus; with the hook off the library draws from thread_rng".into(),
            "an assignment is accepted when its squared distance exceeds the minimum by at most 1e-12 * d * max|x|^2 (rounding of the pruning test)".into(),
        ],
        subs: vec![sub("kmeans_fit", (2000, 60000), strat_fit, check_fit), sub("bbd_assignment", (4000, 200000), strat_bbd, check_bbd), sub("invalid_parameters", (100, 1000), strat_bad, check_bad)],
    }
}
