//! C09 — logistic regression reaches the optimum of its penalised likelihood; L-BFGS on quadratics.
use crate::engine::*;
use crate::gen::*;
use crate::matops::*;
use crate::oracle::{self, Mat};
use proptest::collection::vec;
use proptest::prelude::*;
use serde::{Deserialize, Serialize};
use smartcore::linalg::naive::dense_matrix::DenseMatrix;
use smartcore::linalg::BaseMatrix;
use smartcore::linear::logistic_regression::{LogisticRegression, LogisticRegressionParameters};
use smartcore::verif_hooks::{Backtracking, FirstOrderOptimizer, FunctionOrder, LBFGS};

#[derive(Clone, Debug, Serialize, Deserialize)]
pub struct LogitCase {
    pub x: Mat,
    pub y: Vec<f64>,
    pub alpha: f64,
    pub layout: String,
    pub fresh: Mat,
}

pub fn logit_data(nmax: usize) -> BoxedStrategy<(String, Mat, Vec<f64>)> {
    (1usize..=6, 6usize..=nmax, 2usize..=4, prop_oneof![2 => Just(0.5), 2 => Just(1.5), 1 => Just(6.0)])
        .prop_flat_map(|(p, n, k, sep)| {
            (
                vec(vec(unit(), p), k),                              // class centres
                vec((any::<u16>(), vec(unit(), p)), n),              // class pick + noise
                // feature scale and shift; one case in eight sits in the corner of the stated range: every feature
                // at scale 1e2 with the largest shift (largest curvature along the first, raw-gradient step)
                prop_oneof![7 => vec((pow10(-1, 2), unit()), p), 1 => vec(any::<bool>().prop_map(|s| (100.0, if s { 1.0 } else { -1.0 })), p)],
                label_values([-3.0, 0.0, 1.0, 2.5, 10.0]),            // label values (also rescaled / one ulp apart)
                Just(sep),
            )
        })
        .prop_map(|(centres, rows, fs, vals, sep)| {
            let k = centres.len();
            let n = rows.len();
            let p = fs.len();
            let mut cls: Vec<usize> = rows.iter().map(|r| idx(r.0, k)).collect();
            // every class present
            for c in 0..k {
                if !cls.contains(&c) {
                    cls[c % n] = c;
                }
            }
            let mut lab: Vec<f64> = vals[..k].to_vec();
            lab.sort_by(|a, b| a.partial_cmp(b).unwrap());
            let x = Mat::from_fn(n, p, |i, j| ((centres[cls[i]][j] * sep + rows[i].1[j] * 0.5) + fs[j].1 * 2.0) * fs[j].0);
            // every third well-separated set gets exactly one mislabelled row (an outlier inside another class)
            let one_outlier = sep >= 6.0 && n % 3 == 0 && k >= 2;
            // (only a row whose class keeps another member, so that every class stays present)
            let one_outlier = one_outlier && cls.iter().filter(|c| **c == cls[n / 2]).count() >= 2;
            if one_outlier {
                let i = n / 2;
                cls[i] = (cls[i] + 1) % k;
            }
            let y: Vec<f64> = cls.iter().map(|c| lab[*c]).collect();
            (if one_outlier { "well-separated+one-mislabelled" } else if sep >= 6.0 { "well-separated" } else if sep >= 1.5 { "moderate" } else { "overlapping" }.to_string(), x, y)
        })
        .boxed()
}

fn strat_logit(t: Tier) -> BoxedStrategy<LogitCase> {
    (logit_data(t.pick(100, 100)), prop_oneof![4 => pow10(-2, 1), 1 => Just(0.0)])
        .prop_flat_map(|((layout, x, y), alpha)| {
            let p = x.c;
            (Just((layout, x, y, alpha)), unit_mat(4, p))
        })
        .prop_map(|((layout, x, y, alpha), f)| {
            let mu = x.col_means();
            let sd: Vec<f64> = x.col_vars(0).iter().map(|v| v.sqrt().max(1e-3)).collect();
            let fresh = Mat::from_fn(4, x.c, |i, j| mu[j] + f.at(i, j) * 2.0 * sd[j]);
            LogitCase { x, y, alpha, layout, fresh }
        })
        .boxed()
}

fn logsumexp(v: &[f64]) -> f64 {
    let m = v.iter().cloned().fold(f64::NEG_INFINITY, f64::max);
    m + v.iter().map(|x| (x - m).exp()).sum::<f64>().ln()
}

/// objective and gradient of the penalised negative log-likelihood. w: k x (p+1) (binary: one row)
fn objective(x: &Mat, yi: &[usize], k: usize, w: &Mat, alpha: f64) -> (f64, Mat) {
    let (n, p) = (x.r, x.c);
    let mut f = 0.0;
    let mut g = Mat::zeros(w.r, w.c);
    for i in 0..n {
        if k == 2 {
            let s: f64 = (0..p).map(|j| w.at(0, j) * x.at(i, j)).sum::<f64>() + w.at(0, p);
            let y = yi[i] as f64;
            f += logsumexp(&[0.0, s]) - y * s;
            let pr = 1.0 / (1.0 + (-s).exp());
            for j in 0..p {
                g.d[j] += (pr - y) * x.at(i, j);
            }
            g.d[p] += pr - y;
        } else {
            let s: Vec<f64> = (0..k).map(|c| (0..p).map(|j| w.at(c, j) * x.at(i, j)).sum::<f64>() + w.at(c, p)).collect();
            let lse = logsumexp(&s);
            f += lse - s[yi[i]];
            for c in 0..k {
                let pr = (s[c] - lse).exp();
                let d = pr - if c == yi[i] { 1.0 } else { 0.0 };
                for j in 0..p {
                    g.d[c * (p + 1) + j] += d * x.at(i, j);
                }
                g.d[c * (p + 1) + p] += d;
            }
        }
    }
    for c in 0..w.r {
        for j in 0..p {
            f += 0.5 * alpha * w.at(c, j) * w.at(c, j);
            g.d[c * (p + 1) + j] += alpha * w.at(c, j);
        }
    }
    (f, g)
}

fn check_logit(case: &LogitCase, ctx: &mut Ctx) -> Result<(), Fail> {
    let x = &case.x;
    let (n, p) = (x.r, x.c);
    let mut classes: Vec<f64> = case.y.clone();
    classes.sort_by(|a, b| a.partial_cmp(b).unwrap());
    classes.dedup();
    let k = classes.len();
    let yi: Vec<usize> = case.y.iter().map(|v| classes.iter().position(|c| c == v).unwrap()).collect();
    ctx.label(format!("layout:{}", case.layout));
    ctx.label(format!("classes:{}", k));
    ctx.label(if case.alpha > 0.0 { "alpha>0" } else { "alpha=0" });
    ctx.nontrivial(k >= 3 || case.layout != "well-separated");
    let xm = <DenseB as Build<f64>>::build(x);
    let mut all = x.clone();
    all = all.vstack(&case.fresh);
    let qm = <DenseB as Build<f64>>::build(&all);
    let _ = smartcore::verif_hooks::take_last_optimizer_run();
    let mut optimizer_run = None;
    let r = catch(|| {
        // inherent entry points, or (every other case) the generic traits of smartcore::api
        let via_trait = n % 2 == 1;
        let m: LogisticRegression<f64, DenseMatrix<f64>> = if via_trait { sup_fit(&xm, &case.y, LogisticRegressionParameters::default().with_alpha(case.alpha)) } else { LogisticRegression::fit(&xm, &case.y, LogisticRegressionParameters::default().with_alpha(case.alpha)) }.map_err(|e| e.to_string())?;
        // (iterations used, iteration limit) of the L-BFGS run inside `fit`, through the verification hook
        optimizer_run = smartcore::verif_hooks::take_last_optimizer_run();
        let pred: Vec<f64> = if via_trait { tr_predict(&m, &qm) } else { m.predict(&qm) }.map_err(|e| e.to_string())?;
        Ok::<_, String>((to_mat(m.coefficients()), to_mat(m.intercept()), pred))
    });
    let (coef, icpt, pred) = match r {
        Err(pn) => {
            let sig = if pn.contains("Linesearch failed") { if case.alpha == 0.0 { "logistic/linesearch-panic/alpha=0" } else { "logistic/linesearch-panic" } } else { "logistic/panic" };
            return fail(sig, format!("fit panicked (n={}, p={}, k={}, alpha={}, layout {}): {}", n, p, k, case.alpha, case.layout, pn));
        }
        Ok(Err(e)) => return fail("logistic/err", format!("valid input rejected: {}", e)),
        Ok(Ok(v)) => v,
    };
    let rows = if k == 2 { 1 } else { k };
    ensure!((coef.r, coef.c) == (rows, p) && (icpt.r, icpt.c) == (rows, 1), "logistic/shape", "coefficients {}x{}, intercept {}x{}", coef.r, coef.c, icpt.r, icpt.c);
    let w = Mat::from_fn(rows, p + 1, |c, j| if j < p { coef.at(c, j) } else { icpt.at(c, 0) });
    ensure!(w.all_finite(), "logistic/non-finite", "non-finite coefficients {:?}", w);
    let (f0, g0) = objective(x, &yi, k, &Mat::zeros(rows, p + 1), case.alpha);
    let (f1, g1) = objective(x, &yi, k, &w, case.alpha);
    // the final objective never exceeds the starting objective
    ctx.bound("logistic/objective-not-increased", f1 - f0, 1e-9 * f0.abs())?;
    if case.alpha > 0.0 {
        let (gn0, gn1) = (g0.max_abs(), g1.max_abs());
        // "negligible": 1e-5 of the starting gradient, but never below what double precision lets any minimiser
        // reach: the objective value f carries rounding noise ~eps*|f|, which hides gradient components below
        // sqrt(2 L eps |f|), L = 0.5 sum_i |(x_i, 1)|^2 + alpha being a bound on the curvature (reached by the
        // generated corner class: every feature at scale 1e2 with the largest shift)
        let lip = 0.5 * (0..n).map(|i| (0..p).map(|j| x.at(i, j) * x.at(i, j)).sum::<f64>() + 1.0).sum::<f64>() + case.alpha;
        let floor = 32.0 * (2.0 * lip * f64::EPSILON * f1.abs().max(1.0)).sqrt();
        ctx.label_if(floor > 4e-5 * gn0.max(1.0), "stationarity bound = rounding floor");
        // (4e-5 and the factor 32 are calibrated: over 15 thorough seeds the unchanged library's worst fit that
        // stopped by its own convergence test left 1.2e-5 of the starting gradient, 17 times the raw floor estimate)
        if let Err(mut e) = ctx.bound("logistic/stationarity", gn1, (4e-5 * gn0.max(1.0)).max(floor)) {
            // Root cause key: did the L-BFGS run inside this very fit stop because it exhausted its fixed budget
            // of 1000 iterations (read through the verification hook), rather than by its convergence test?
            // Second root cause (binary model only): the library evaluates ln(1+e^s) as `s` for s > 15, a jump of
            // 3e-7 at s = 15 that makes objective and gradient inconsistent; once a training row's score passes 15 the
            // line search rejects good steps and the optimiser stalls.
            let max_score = (0..n).map(|i| (0..p).map(|j| w.at(0, j) * x.at(i, j)).sum::<f64>() + w.at(0, p)).fold(f64::NEG_INFINITY, f64::max);
            if k == 2 && max_score > 15.0 && gn1 <= gn0.max(1.0) {
                e.sig = "logistic/stationarity/softplus-jump".into();
                e.msg = format!("{} (binary model, a training row has linear score {:.1} > 15 where RealNumber::ln_1pe switches to its discontinuous approximation; n={}, p={}, alpha={})", e.msg, max_score, n, p, case.alpha);
            } else if matches!(optimizer_run, Some((it, lim)) if it >= lim) && gn1 <= gn0.max(1.0) {
                e.sig = "logistic/stationarity/iteration-limit".into();
                e.msg = format!("{} (L-BFGS with its default memory of 10 needs more than its 1000 iterations on these badly scaled features; n={}, p={}, k={}, alpha={})", e.msg, n, p, k, case.alpha);
            }
            return Err(e);
        }
    }
    // predictions: labels of the training set, arg-max of the linear scores
    let xs = x.col_vars(0).iter().map(|v| v.sqrt()).fold(0.0, f64::max);
    for i in 0..all.r {
        ensure!(classes.contains(&pred[i]), "logistic/predict-label", "predicted label {} is not a training label {:?}", pred[i], classes);
        let s: Vec<f64> = (0..rows).map(|c| (0..p).map(|j| w.at(c, j) * all.at(i, j)).sum::<f64>() + w.at(c, p)).collect();
        let mag: f64 = (0..rows).map(|c| (0..p).map(|j| (w.at(c, j) * all.at(i, j)).abs()).sum::<f64>() + w.at(c, p).abs()).fold(0.0, f64::max);
        let tol = 1e-9 * mag.max(xs * 1e-6);
        let pi = classes.iter().position(|c| *c == pred[i]).unwrap();
        if k == 2 {
            let ok = if s[0] > tol { pi == 1 } else if s[0] < -tol { pi == 0 } else { true };
            ensure!(ok, "logistic/predict-sign", "row {}: linear score {:e} but predicted class {}", i, s[0], pred[i]);
        } else {
            let mx = s.iter().cloned().fold(f64::NEG_INFINITY, f64::max);
            ensure!(s[pi] >= mx - tol, "logistic/predict-argmax", "row {}: scores {:?} but predicted class index {}", i, s, pi);
        }
    }
    Ok(())
}

// ------------------------------------------------------------------ the same estimator in single precision

/// f32 instantiation of the estimator. The element type is not named in the property's quantifier, so only
/// the precision-independent part of the statement is asserted, with tolerances scaled to f32: the fit
/// succeeds with finite coefficients of the right shape and the final objective does not exceed the
/// starting one. No progress / stationarity claim is made in f32: measured on the unchanged library, f32 fits
/// on features of magnitude >= 1e2 sometimes realise less than 0.01 % of the objective decrease of the f64 fit
/// (1 case in ~10^4; worst observed 0.0005 %) and leave half of the starting gradient, so any such threshold would either be vacuous or raise false alarms.
fn check_logit_f32(case: &LogitCase, ctx: &mut Ctx) -> Result<(), Fail> {
    let x = to_f32_grid(&case.x);
    let (n, p) = (x.r, x.c);
    let mut classes: Vec<f64> = case.y.iter().map(|v| *v as f32 as f64).collect();
    classes.sort_by(|a, b| a.partial_cmp(b).unwrap());
    classes.dedup();
    let mut orig: Vec<f64> = case.y.clone();
    orig.sort_by(|a, b| a.partial_cmp(b).unwrap());
    orig.dedup();
    if classes.len() != orig.len() {
        ctx.label("labels not distinct in f32 (skipped)");
        return Ok(());
    }
    let k = classes.len();
    let yf: Vec<f32> = case.y.iter().map(|v| *v as f32).collect();
    let yi: Vec<usize> = yf.iter().map(|v| classes.iter().position(|c| *c == *v as f64).unwrap()).collect();
    let alpha = case.alpha as f32;
    if !(alpha > 0.0) {
        // Without the penalty the f32 optimiser is not even guaranteed to stay finite on the unchanged library
        // (three classes, one mislabelled row: coefficients of 1e30 and inf where the f64 fit converges), and f32
        // is not named in the property's quantifier: only penalised fits are exercised in f32.
        ctx.label("alpha=0 (not exercised in f32)");
        return Ok(());
    }
    ctx.label(format!("layout:{}", case.layout));
    ctx.label(format!("classes:{}", k));
    ctx.label(if alpha > 0.0 { "alpha>0" } else { "alpha=0" });
    ctx.label_if(x.max_abs() > 50.0, "features>50");
    ctx.nontrivial(k >= 3 || case.layout != "well-separated");
    let xm = <DenseB as Build<f32>>::build(&x);
    let _ = smartcore::verif_hooks::take_last_optimizer_run();
    let mut optimizer_run = None;
    let r = catch(|| {
        let m = LogisticRegression::fit(&xm, &yf, LogisticRegressionParameters::default().with_alpha(alpha)).map_err(|e| e.to_string())?;
        optimizer_run = smartcore::verif_hooks::take_last_optimizer_run();
        Ok::<_, String>((to_mat(m.coefficients()), to_mat(m.intercept())))
    });
    let (coef, icpt) = match r {
        Err(pn) => return fail("logistic-f32/panic", format!("fit panicked (n={}, p={}, k={}, alpha={}, layout {}): {}", n, p, k, alpha, case.layout, pn)),
        Ok(Err(e)) => return fail("logistic-f32/err", format!("valid input rejected: {}", e)),
        Ok(Ok(v)) => v,
    };
    let rows = if k == 2 { 1 } else { k };
    ensure!((coef.r, coef.c) == (rows, p) && (icpt.r, icpt.c) == (rows, 1), "logistic-f32/shape", "coefficients {}x{}, intercept {}x{}", coef.r, coef.c, icpt.r, icpt.c);
    let w = Mat::from_fn(rows, p + 1, |c, j| if j < p { coef.at(c, j) } else { icpt.at(c, 0) });
    ensure!(w.all_finite(), "logistic-f32/non-finite", "non-finite coefficients {:?}", w);
    let (f0, g0) = objective(&x, &yi, k, &Mat::zeros(rows, p + 1), alpha as f64);
    let (f1, g1) = objective(&x, &yi, k, &w, alpha as f64);
    ctx.bound("logistic-f32/objective-not-increased", f1 - f0, 1e-4 * f0.abs())?;
    let _ = (g0, g1, optimizer_run);
    Ok(())
}

// ------------------------------------------------------------------ L-BFGS on strictly convex quadratics

#[derive(Clone, Debug, Serialize, Deserialize)]
pub struct QuadCase {
    pub q: Mat,
    pub b: Vec<f64>,
    pub x0: Vec<f64>,
    pub logcond: f64,
}

fn strat_quad(_t: Tier) -> BoxedStrategy<QuadCase> {
    (1usize..=12, prop_oneof![Just(0.5), Just(2.0), Just(4.0)], pow10(-2, 2))
        .prop_flat_map(|(d, lc, qs)| (spectrum(d, lc).prop_flat_map(sym_from_eigs), vec(unit(), d), vec(unit(), d), pow10(-1, 3), Just(lc), Just(qs)))
        .prop_map(|(q, b, x0, xs, lc, qs)| QuadCase { q: q.scale(qs), b, x0: x0.iter().map(|v| v * xs).collect(), logcond: lc })
        .boxed()
}

fn run_lbfgs(case: &QuadCase, max_iter: usize) -> Result<(Vec<f64>, f64, usize), String> {
    let d = case.b.len();
    let q = case.q.clone();
    let b = case.b.clone();
    let f = |x: &DenseMatrix<f64>| -> f64 {
        let xv: Vec<f64> = (0..d).map(|j| x.get(0, j)).collect();
        0.5 * oracle::dot(&xv, &q.mulv(&xv)) - oracle::dot(&b, &xv)
    };
    let q2 = case.q.clone();
    let b2 = case.b.clone();
    let df = |g: &mut DenseMatrix<f64>, x: &DenseMatrix<f64>| {
        let xv: Vec<f64> = (0..d).map(|j| x.get(0, j)).collect();
        let qx = q2.mulv(&xv);
        for j in 0..d {
            g.set(0, j, qx[j] - b2[j]);
        }
    };
    let x0 = DenseMatrix::row_vector_from_array(&case.x0);
    let ls: Backtracking<f64> = Backtracking { order: FunctionOrder::THIRD, ..Default::default() };
    let mut opt: LBFGS<f64> = Default::default();
    opt.max_iter = max_iter;
    catch(|| {
        let r = opt.optimize(&f, &df, &x0, &ls);
        ((0..d).map(|j| r.x.get(0, j)).collect::<Vec<f64>>(), r.f_x, r.iterations)
    })
}

fn check_quad(case: &QuadCase, ctx: &mut Ctx) -> Result<(), Fail> {
    let d = case.b.len();
    ctx.nontrivial(d >= 3 && case.logcond >= 2.0);
    ctx.label(format!("cond:1e{}", case.logcond));
    let fval = |x: &[f64]| 0.5 * oracle::dot(x, &case.q.mulv(x)) - oracle::dot(&case.b, x);
    let grad = |x: &[f64]| -> Vec<f64> { case.q.mulv(x).iter().zip(&case.b).map(|(a, b)| a - b).collect() };
    let g0 = oracle::norm2(&grad(&case.x0));
    let f0 = fval(&case.x0);
    let (x, fx, its) = run_lbfgs(case, 1000).map_err(|p| Fail { sig: "lbfgs/panic".into(), msg: format!("optimize panicked: {}", p) })?;
    ensure!(x.iter().all(|v| v.is_finite()), "lbfgs/non-finite", "non-finite iterate {:?}", x);
    let g1 = oracle::norm2(&grad(&x));
    ctx.count("iterations", its as u64);
    // exact minimum value, to scale the floating-point floor
    let xstar = oracle::solve(&case.q, &Mat { r: d, c: 1, d: case.b.clone() }).map(|m| m.d).unwrap_or(x.clone());
    let fstar = fval(&xstar);
    let fscale = f0.abs().max(fstar.abs()).max(1e-300);
    // floating-point floor: once f cannot change any more (|df| < eps |f|) the gradient is of order sqrt(eps |f| ||Q||)
    let qn = case.q.max_abs() * d as f64;
    let floor = 64.0 * (f64::EPSILON * fscale * qn).sqrt();
    ctx.bound("lbfgs/gradient-reduction", g1, (1e-6 * g0).max(1e-7).max(floor))?;
    if its > 0 {
        // (a start that is already stationary returns without evaluating f: f_x stays NaN; not part of the property)
        ctx.bound("lbfgs/reported-value", (fx - fval(&x)).abs(), 1e-12 * fscale)?;
    }
    ctx.bound("lbfgs/final-not-above-start", fval(&x) - f0, 1e-12 * fscale)?;
    // monotonicity, observed black-box: the optimiser is deterministic, so max_iter = k reproduces iterate k
    let kmax = its.min(20);
    let mut prev = f0;
    for k in 1..=kmax {
        let (xk, _, _) = run_lbfgs(case, k).map_err(|p| Fail { sig: "lbfgs/panic".into(), msg: format!("optimize(max_iter={}) panicked: {}", k, p) })?;
        let fk = fval(&xk);
        ensure!(fk <= prev + 1e-12 * fscale, "lbfgs/objective-increased", "iteration {}: f = {:e} after {:e}", k, fk, prev);
        prev = fk;
    }
    Ok(())
}

pub fn property() -> Property {
    Property {
        id: "C09",
        quick_mult: 8,
        rule: "training sets with 1<=p<=6, 6<=n<=100, 2..4 classes with label values from {-3,0,1,2.5,10} (as they are, rescaled by 2^[-70,40], or replaced by consecutive floating-point numbers one ulp apart), class centres at separation 0.5 / 1.5 / 6 noise widths (overlapping, moderate, well separated, well separated with exactly one mislabelled row), features scaled by 10^[-1,2] and shifted (one case in eight: all features at scale 1e2 with maximal shift); alpha in 1e-2..10 (80%) or 0; fresh rows for predict. Quadratics 1/2 x^T Q x - b^T x with Q = R diag(l) R^T of dimension 1..12, cond 3 / 1e2 / 1e4, overall scale 1e-2..1e2, start of norm up to 1e3. non-trivial = >= 3 classes or not well separated (logistic), dimension >= 3 and cond >= 100 (quadratics); distinct = distinct serialised case",
        assumptions: vec![
            "stationarity: ||grad F(w*)||_inf <= max(4e-5 * max(1, ||grad F(0)||_inf), 32 sqrt(2 L eps |F(w*)|)) with our own log-sum-exp objective (intercepts unpenalised), L = 0.5 sum_i |(x_i,1)|^2 + alpha; the second term is the gradient size hidden by the rounding noise of the objective value; asserted for alpha > 0 only".into(),
            "L-BFGS is driven through the cfg(smartcore_verif) re-export; monotonicity is observed by re-running the deterministic optimiser with max_iter = 1..20".into(),
            "a line-search panic counts as a violation of 'returns'".into(),
        ],
        subs: vec![sub("logistic_fit", (800, 30000), strat_logit, check_logit), sub("logistic_fit_f32", (400, 15000), strat_logit, check_logit_f32), sub("lbfgs_quadratic", (1500, 60000), strat_quad, check_quad)],
    }
}

pub fn logit_cases(t: Tier) -> BoxedStrategy<LogitCase> {
    strat_logit(t)
}
pub fn check_logit_pub(case: &LogitCase, ctx: &mut Ctx) -> Result<(), Fail> {
    check_logit(case, ctx)
}
pub fn objective_pub(x: &Mat, yi: &[usize], k: usize, w: &Mat, alpha: f64) -> (f64, Mat) {
    objective(x, yi, k, w, alpha)
}
