//! C14 — PCA and truncated SVD: orthonormal, variance-ordered, optimal projections.
use crate::engine::*;
use crate::gen::*;
use crate::matops::*;
use crate::oracle::{self, jacobi_eig, orth_defect, Mat};
use proptest::collection::vec;
use proptest::prelude::*;
use serde::{Deserialize, Serialize};
use smartcore::linalg::naive::dense_matrix::DenseMatrix;
use smartcore::decomposition::pca::{PCAParameters, PCA};
use smartcore::decomposition::svd::{SVDParameters, SVD};

const C: f64 = 512.0;

#[derive(Clone, Debug, Serialize, Deserialize)]
pub struct ProjCase {
    pub x: Mat,
    pub k: usize,
    pub correlation: bool,
    pub class: String,
    pub split: usize,
}

fn data(nmax: usize) -> BoxedStrategy<(String, Mat)> {
    (prop_oneof![3 => 2usize..=nmax, 1 => 2usize..=8], 1usize..=8)
        .prop_flat_map(|(n, p)| {
            let scales = vec(pow10(-2, 2), p);
            let means = vec(prop_oneof![Just(0.0), unit().prop_map(|v| v * 10.0), unit().prop_map(|v| v * 1e4)], p);
            prop_oneof![
                // correlated columns: latent factors mixed
                4 => (unit_mat(n, p), unit_mat(p, p), scales.clone(), means.clone()).prop_map(move |(z, mix, sc, mu)| {
                    let a = z.mul(&mix.add(&Mat::eye(p)));
                    ("correlated".to_string(), Mat::from_fn(n, p, |i, j| (a.at(i, j) + mu[j]) * sc[j]))
                }),
                // exactly rank deficient: duplicated and summed columns (dyadic values, so the relations are exact)
                2 => (unit_mat(n, p), vec(any::<u16>(), p), any::<u16>()).prop_map(move |(z, sel, mode)| {
                    let mut a = z.clone();
                    if p >= 2 {
                        let src = crate::gen::idx(sel[0], p - 1);
                        if mode % 2 == 0 || p < 3 {
                            for i in 0..n { let v = a.at(i, src); a.set(i, p - 1, v); }
                        } else {
                            let src2 = (src + 1) % (p - 1);
                            for i in 0..n { let v = a.at(i, src) + a.at(i, src2); a.set(i, p - 1, v); }
                        }
                    }
                    ("rank-deficient".to_string(), a)
                }),
                2 => (unit_mat(n, p), scales, means).prop_map(move |(z, sc, mu)| ("independent".to_string(), Mat::from_fn(n, p, |i, j| (z.at(i, j) + mu[j]) * sc[j]))),
            ]
        })
        .boxed()
}

fn strat_proj(t: Tier) -> BoxedStrategy<ProjCase> {
    (data(t.pick(50, 80)), any::<u16>(), any::<bool>(), any::<u16>())
        .prop_map(|((class, x), ks, correlation, sp)| {
            let k = 1 + crate::gen::idx(ks, x.c);
            let split = 1 + crate::gen::idx(sp, x.r - 1);
            ProjCase { x, k, correlation, class, split }
        })
        .boxed()
}

fn pop_cov(x: &Mat) -> (Vec<f64>, Mat) {
    let mu = x.col_means();
    let cov = Mat::from_fn(x.c, x.c, |i, j| (0..x.r).map(|r| (x.at(r, i) - mu[i]) * (x.at(r, j) - mu[j])).sum::<f64>() / x.r as f64);
    (mu, cov)
}

fn check_pca(case: &ProjCase, ctx: &mut Ctx) -> Result<(), Fail> {
    let x = &case.x;
    let (n, p) = (x.r, x.c);
    let k = case.k;
    let eps = f64::EPSILON;
    ctx.label(format!("class:{}", case.class));
    ctx.label(if case.correlation { "correlation" } else { "covariance" });
    ctx.label(if n > p { "n>p (SVD path)" } else { "n<=p (EVD path)" });
    let (mu, cov) = pop_cov(x);
    let sd: Vec<f64> = (0..p).map(|j| cov.at(j, j).sqrt()).collect();
    if case.correlation && sd.iter().any(|s| !(*s > 0.0)) {
        ctx.label("constant column under correlation mode (outside the domain)");
        return Ok(());
    }
    ctx.nontrivial(p >= 3 && k < p);
    let xm = <DenseB as Build<f64>>::build(x);
    let r = catch(|| {
        // builder calls in two orders (a setter that rebuilds from the defaults would lose earlier settings)
        let params = if (n + k) % 2 == 0 { PCAParameters::default().with_n_components(k).with_use_correlation_matrix(case.correlation) } else { PCAParameters::default().with_use_correlation_matrix(case.correlation).with_n_components(k) };
        // inherent entry points, or (every other case) the generic traits of smartcore::api
        let via_trait = (n / 2) % 2 == 1;
        let m: PCA<f64, DenseMatrix<f64>> = if via_trait { unsup_fit(&xm, params) } else { PCA::fit(&xm, params) }.map_err(|e| e.to_string())?;
        let t = if via_trait { tr_transform(&m, &xm) } else { m.transform(&xm) }.map_err(|e| e.to_string())?;
        let top = m.transform(&<DenseB as Build<f64>>::build(&x.slice(0, case.split, 0, p))).map_err(|e| e.to_string())?;
        let bot = if case.split < n { Some(m.transform(&<DenseB as Build<f64>>::build(&x.slice(case.split, n, 0, p))).map_err(|e| e.to_string())?) } else { None };
        Ok::<_, String>((to_mat(m.components()), to_mat(&t), to_mat(&top), bot.map(|b| to_mat(&b)), serde_json::to_value(&m).map_err(|e| e.to_string())?))
    });
    let (comp, t, top, bot, json) = match r {
        Err(pn) => return fail("pca/panic", format!("panicked: {}", pn)),
        Ok(Err(e)) => return fail("pca/err", format!("valid input rejected: {}", e)),
        Ok(Ok(v)) => v,
    };
    ensure!((comp.r, comp.c) == (p, k) && (t.r, t.c) == (n, k), "pca/shape", "components {}x{}, transformed {}x{}", comp.r, comp.c, t.r, t.c);
    // working matrix: centred (and standardised) data; its scale sets all tolerances
    let zc = Mat::from_fn(n, p, |i, j| (x.at(i, j) - mu[j]) / if case.correlation { sd[j] } else { 1.0 });
    let zn = zc.fro().max(1e-300);
    // rounding of (x . P - mu . P): relative to the uncentred magnitude
    let big = (0..p).map(|j| (mu[j].abs() + (0..n).map(|i| (x.at(i, j) - mu[j]).abs()).fold(0.0, f64::max)) * (0..k).map(|c| comp.at(j, c).abs()).fold(0.0, f64::max)).sum::<f64>();
    let tau = 64.0 * eps * (p as f64 + 2.0) * big; // per transformed entry
    let nf = n as f64;
    // components orthonormal (covariance) / diag(sd) * components orthonormal (correlation)
    let q = if case.correlation { Mat::from_fn(p, k, |i, j| comp.at(i, j) * sd[i]) } else { comp.clone() };
    ctx.bound("pca/components-orthonormal", orth_defect(&q, k), C * eps * p as f64)?;
    // transformed data: zero column means
    let tm = t.col_means();
    for c in 0..k {
        ctx.bound("pca/zero-column-means", tm[c].abs(), tau + C * eps * zn)?;
    }
    // uncorrelated columns, non-increasing variances
    let g = t.t().mul(&t);
    let mut var = vec![0.0; k];
    for a in 0..k {
        var[a] = g.at(a, a) / nf - tm[a] * tm[a];
        for b in 0..a {
            ctx.bound("pca/columns-uncorrelated", g.at(a, b).abs(), C * eps * (nf.max(p as f64)) * zn * zn + 2.0 * tau * nf.sqrt() * zn)?;
        }
    }
    let vtol = C * eps * (nf.max(p as f64)) * zn * zn / nf + 2.0 * tau * zn / nf.sqrt();
    for a in 1..k {
        ensure!(var[a] <= var[a - 1] + vtol, "pca/variance-order", "column variances not non-increasing: {:?}", var);
    }
    // captured variance = sum of the k largest eigenvalues of the covariance (correlation) matrix: Ky Fan optimality
    let cmat = if case.correlation { Mat::from_fn(p, p, |i, j| cov.at(i, j) / (sd[i] * sd[j])) } else { cov.clone() };
    let (eigs, _) = jacobi_eig(&cmat);
    let want: f64 = eigs[..k].iter().sum();
    let got: f64 = var.iter().sum();
    ctx.bound("pca/captured-variance-is-optimal", (got - want).abs(), k as f64 * vtol + C * eps * p as f64 * eigs[0].abs())?;
    // affine row-wise map: transform of a stack = stack of transforms; equals (x - mu) P with the model's own mu, P
    let stacked = match &bot {
        Some(b) => top.vstack(b),
        None => top.clone(),
    };
    ensure!((stacked.r, stacked.c) == (n, k), "pca/stack-shape", "stacked transform has shape {}x{}", stacked.r, stacked.c);
    ctx.bound("pca/transform-of-stack", stacked.sub(&t).max_abs(), tau)?;
    let jmu: Vec<f64> = serde_json::from_value(json["mu"].clone()).unwrap_or_default();
    let jp: Mat = match serde_json::from_value::<serde_json::Value>(json["projection"].clone()) {
        Ok(v) => {
            let (r, c) = (v["nrows"].as_u64().unwrap_or(0) as usize, v["ncols"].as_u64().unwrap_or(0) as usize);
            let vals: Vec<f64> = serde_json::from_value(v["values"].clone()).unwrap_or_default();
            if vals.len() != r * c {
                return fail("pca/json", "projection does not parse".to_string());
            }
            Mat::from_fn(r, c, |i, j| vals[j * r + i])
        }
        Err(e) => return fail("pca/json", e.to_string()),
    };
    ensure!(jmu.len() == p && (jp.r, jp.c) == (p, k), "pca/json", "stored mu / projection have wrong shape");
    for i in 0..n {
        for c in 0..k {
            let want: f64 = (0..p).map(|j| (x.at(i, j) - jmu[j]) * jp.at(j, c)).sum();
            ctx.bound("pca/transform-is-affine-map", (t.at(i, c) - want).abs(), tau)?;
        }
    }
    // more components than attributes is an error
    let bad = no_panic("pca/k>p", || PCA::fit(&xm, PCAParameters::default().with_n_components(p + 1)).is_err())?;
    ensure!(bad, "pca/k>p-accepted", "n_components = p + 1 accepted");
    Ok(())
}

fn check_tsvd(case: &ProjCase, ctx: &mut Ctx) -> Result<(), Fail> {
    let x = &case.x;
    let (n, p) = (x.r, x.c);
    let eps = f64::EPSILON;
    ctx.label(format!("class:{}", case.class));
    let xm = <DenseB as Build<f64>>::build(x);
    // k = p must be rejected
    let bad = no_panic("tsvd/k=p", || SVD::fit(&xm, SVDParameters::default().with_n_components(p)).is_err())?;
    ensure!(bad, "tsvd/k=p-accepted", "n_components = p accepted");
    if p < 2 {
        return Ok(());
    }
    let k = case.k.min(p - 1);
    ctx.nontrivial(p >= 3);
    let r = catch(|| {
        let via_trait = (n / 2) % 2 == 1;
        let m: SVD<f64, DenseMatrix<f64>> = if via_trait { unsup_fit(&xm, SVDParameters::default().with_n_components(k)) } else { SVD::fit(&xm, SVDParameters::default().with_n_components(k)) }.map_err(|e| e.to_string())?;
        let t = if via_trait { tr_transform(&m, &xm) } else { m.transform(&xm) }.map_err(|e| e.to_string())?;
        let top = m.transform(&<DenseB as Build<f64>>::build(&x.slice(0, case.split, 0, p))).map_err(|e| e.to_string())?;
        let bot = if case.split < n { Some(m.transform(&<DenseB as Build<f64>>::build(&x.slice(case.split, n, 0, p))).map_err(|e| e.to_string())?) } else { None };
        Ok::<_, String>((to_mat(m.components()), to_mat(&t), to_mat(&top), bot.map(|b| to_mat(&b))))
    });
    let (comp, t, top, bot) = match r {
        Err(pn) => return fail("tsvd/panic", format!("panicked: {}", pn)),
        Ok(Err(e)) => return fail("tsvd/err", format!("valid input rejected: {}", e)),
        Ok(Ok(v)) => v,
    };
    ensure!((comp.r, comp.c) == (p, k) && (t.r, t.c) == (n, k), "tsvd/shape", "components {}x{}, transformed {}x{}", comp.r, comp.c, t.r, t.c);
    let xn = x.fro().max(1e-300);
    let dimf = n.max(p) as f64;
    ctx.bound("tsvd/components-orthonormal", orth_defect(&comp, k), C * eps * dimf)?;
    // ||X C||_F^2 = sum of the k largest squared singular values
    let sv = oracle::singular_values(x);
    let want: f64 = sv.iter().take(k).map(|s| s * s).sum();
    let got = t.fro().powi(2);
    ctx.bound("tsvd/captured-energy-is-optimal", (got - want).abs(), C * eps * dimf * xn * xn)?;
    // x -> x C row-wise
    ctx.bound("tsvd/transform-is-linear-map", x.mul(&comp).sub(&t).max_abs(), 64.0 * eps * p as f64 * x.max_abs() * comp.max_abs())?;
    let stacked = match &bot {
        Some(b) => top.vstack(b),
        None => top.clone(),
    };
    ctx.bound("tsvd/transform-of-stack", stacked.sub(&t).max_abs(), 64.0 * eps * p as f64 * x.max_abs() * comp.max_abs())?;
    Ok(())
}

pub fn property() -> Property {
    Property {
        id: "C14",
        quick_mult: 100,
        rule: "data matrices with 2<=n<=50 (quick) / 80 (thorough) rows and 1<=p<=8 columns, both n>p and n<=p: correlated columns (latent mixing) with column scales 1e-2..1e2 and means 0, ~10 or ~1e4, exactly rank-deficient (a duplicated or summed dyadic column), independent columns; every k in 1..p (truncated SVD: 1..p-1, k = p must be rejected); covariance and correlation mode; a random split point for the stacking relation. non-trivial = p >= 3 and k < p; distinct = distinct serialised case",
        assumptions: vec![
            format!("bounds are C*eps*max(n,p)*||Xc||^2 with C = {} plus the rounding of x.P - mu.P, 64*eps*(p+2)*sum_j (|mu_j|+spread_j) max|P_j.| per entry", C),
            "eigenvalue references come from a cyclic Jacobi solver on our own covariance / correlation matrix; singular values from one-sided Jacobi".into(),
            "a constant column in correlation mode (0/0 standardisation) is outside the domain".into(),
        ],
        subs: vec![sub("pca", (2000, 60000), strat_proj, check_pca), sub("truncated_svd", (1500, 40000), strat_proj, check_tsvd)],
    }
}
