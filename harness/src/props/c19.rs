//! C19 — every model survives a serialise / deserialise round trip unchanged.
use crate::engine::*;
use crate::gen::*;
use crate::matops::*;
use crate::oracle::Mat;
use proptest::collection::vec;
use proptest::prelude::*;
use serde::de::DeserializeOwned;
use serde::{Deserialize, Serialize};
use smartcore::algorithm::neighbour::cover_tree::CoverTree;
use smartcore::algorithm::neighbour::linear_search::LinearKNNSearch;
use smartcore::algorithm::neighbour::KNNAlgorithmName;
use smartcore::cluster::dbscan::{DBSCANParameters, DBSCAN};
use smartcore::cluster::kmeans::{KMeans, KMeansParameters};
use smartcore::decomposition::pca::{PCAParameters, PCA};
use smartcore::decomposition::svd::{SVDParameters, SVD as TruncatedSVD};
use smartcore::ensemble::random_forest_classifier::{RandomForestClassifier, RandomForestClassifierParameters};
use smartcore::ensemble::random_forest_regressor::{RandomForestRegressor, RandomForestRegressorParameters};
use smartcore::linalg::naive::dense_matrix::DenseMatrix;
use smartcore::linalg::BaseMatrix;
use smartcore::linear::elastic_net::{ElasticNet, ElasticNetParameters};
use smartcore::linear::lasso::{Lasso, LassoParameters};
use smartcore::linear::linear_regression::{LinearRegression, LinearRegressionParameters, LinearRegressionSolverName};
use smartcore::linear::logistic_regression::{LogisticRegression, LogisticRegressionParameters};
use smartcore::linear::ridge_regression::{RidgeRegression, RidgeRegressionParameters};
use smartcore::math::distance::mahalanobis::Mahalanobis;
use smartcore::math::distance::{Distance, Distances};
use smartcore::naive_bayes::bernoulli::{BernoulliNB, BernoulliNBParameters};
use smartcore::naive_bayes::categorical::{CategoricalNB, CategoricalNBParameters};
use smartcore::naive_bayes::gaussian::{GaussianNB, GaussianNBParameters};
use smartcore::naive_bayes::multinomial::{MultinomialNB, MultinomialNBParameters};
use smartcore::neighbors::knn_classifier::{KNNClassifier, KNNClassifierParameters};
use smartcore::neighbors::knn_regressor::{KNNRegressor, KNNRegressorParameters};
use smartcore::neighbors::KNNWeightFunction;
use smartcore::svm::svc::{SVCParameters, SVC};
use smartcore::svm::svr::{SVRParameters, SVR};
use smartcore::svm::{Kernel, Kernels};
use smartcore::tree::decision_tree_classifier::{DecisionTreeClassifier, DecisionTreeClassifierParameters};
use smartcore::tree::decision_tree_regressor::{DecisionTreeRegressor, DecisionTreeRegressorParameters};

type DM = DenseMatrix<f64>;

#[derive(Clone, Debug, Serialize, Deserialize)]
pub struct RtCase {
    pub family: String,
    pub which: u8,
    pub x: Mat,
    pub y_reg: Vec<f64>,
    pub y_cls: Vec<f64>,
    /// a second data set with a different number of rows and different targets
    pub x2: Mat,
    pub y2_reg: Vec<f64>,
    pub y2_cls: Vec<f64>,
    pub q: Mat,
    pub param: f64,
}

fn dataset(n: usize, p: usize) -> BoxedStrategy<(Mat, Vec<f64>, Vec<f64>)> {
    (unit_mat(n, p), vec(unit(), p), vec(unit(), n), 2usize..=3, pow10(-1, 1))
        .prop_map(move |(z, w, noise, k, sc)| {
            let x = Mat::from_fn(n, p, |i, j| (z.at(i, j) * 2.0 + j as f64 * 0.25) * sc);
            let lin: Vec<f64> = (0..n).map(|i| (0..p).map(|j| w[j] * z.at(i, j)).sum::<f64>()).collect();
            let y_reg: Vec<f64> = (0..n).map(|i| lin[i] * 3.0 + noise[i] * 0.5 + 1.0).collect();
            // classes by quantile of the linear score: all k classes occur, roughly balanced
            let mut order: Vec<usize> = (0..n).collect();
            order.sort_by(|a, b| lin[*a].partial_cmp(&lin[*b]).unwrap());
            let mut y_cls = vec![0.0; n];
            for (rank, i) in order.iter().enumerate() {
                let c = rank * k / n;
                y_cls[*i] = [-2.0, 1.0, 5.0][c];
            }
            // a little label noise so that classes overlap
            for i in 0..n {
                if noise[i] > 0.8 {
                    y_cls[i] = [-2.0, 1.0, 5.0][(i % k)];
                }
            }
            (x, y_reg, y_cls)
        })
        .boxed()
}

fn strat_family(family: &'static str, nwhich: u8) -> BoxedStrategy<RtCase> {
    (10usize..=40, 2usize..=5, 0..nwhich, unit_pos())
        .prop_flat_map(move |(n, p, which, param)| (dataset(n, p), dataset(n + 5, p), unit_mat(5, p), Just((which, param))))
        .prop_map(move |((x, y_reg, y_cls), (x2, y2r, y2c), q, (which, param))| {
            let y2_reg: Vec<f64> = y2r.iter().map(|v| -2.0 * v + 7.0).collect();
            RtCase { family: family.to_string(), which, x, y_reg, y_cls, x2, y2_reg, y2_cls: y2c, q: q.scale(3.0), param }
        })
        .boxed()
}

fn vec_close(tag: &str, what: &str, a: &[f64], b: &[f64], rel: f64) -> Result<(), Fail> {
    ensure!(a.len() == b.len(), format!("{}/{}", tag, what), "observable length {} vs {}", a.len(), b.len());
    // (NaN entries - e.g. the out-of-bag prediction of a row that every tree saw - must be NaN on both sides)
    let sc = a.iter().filter(|v| v.is_finite()).fold(0.0f64, |m, v| m.max(v.abs()));
    for i in 0..a.len() {
        let ok = if a[i].is_nan() || b[i].is_nan() { a[i].is_nan() && b[i].is_nan() } else if rel == 0.0 { a[i].to_bits() == b[i].to_bits() } else { (a[i] - b[i]).abs() <= rel * sc.max(1e-300) };
        ensure!(ok, format!("{}/{}", tag, what), "observable entry {}: original {:e}, restored {:e}", i, a[i], b[i]);
    }
    Ok(())
}

/// the round-trip laws for one object
fn roundtrip<M: Serialize + DeserializeOwned>(tag: &str, m: &M, obs: &dyn Fn(&M) -> Result<Vec<f64>, String>, eq: Option<&dyn Fn(&M, &M) -> bool>) -> Result<(), Fail> {
    let o0 = match catch(|| obs(m)) {
        Ok(Ok(v)) => v,
        Ok(Err(e)) => return fail(format!("{}/observe", tag), format!("observable failed on the original: {}", e)),
        Err(p) => return fail(format!("{}/observe", tag), format!("observable panicked on the original: {}", p)),
    };
    if let Some(eq) = eq {
        ensure!(eq(m, m), format!("{}/eq-reflexive", tag), "a model does not equal itself");
    }
    // ---- binary
    let bytes = match catch(|| bincode::serialize(m)) {
        Ok(Ok(b)) => b,
        Ok(Err(e)) => return fail(format!("{}/bincode/serialize", tag), format!("serialisation failed: {}", e)),
        Err(p) => return fail(format!("{}/bincode/serialize", tag), format!("serialisation panicked: {}", p)),
    };
    let m2: M = match catch(|| bincode::deserialize::<M>(&bytes)) {
        Ok(Ok(x)) => x,
        Ok(Err(e)) => return fail(format!("{}/bincode/deserialize", tag), format!("deserialisation failed: {}", e)),
        Err(p) => return fail(format!("{}/bincode/deserialize", tag), format!("deserialisation panicked: {}", p)),
    };
    if let Some(eq) = eq {
        ensure!(eq(m, &m2) && eq(&m2, m), format!("{}/bincode/not-equal", tag), "restored copy (bincode) does not compare equal to the original");
    }
    let o2 = catch(|| obs(&m2)).map_err(|p| Fail { sig: format!("{}/bincode/observe", tag), msg: p })?.map_err(|e| Fail { sig: format!("{}/bincode/observe", tag), msg: e })?;
    vec_close(tag, "bincode/observable-differs", &o0, &o2, 0.0)?;
    let bytes2 = bincode::serialize(&m2).map_err(|e| Fail { sig: format!("{}/bincode/reserialize", tag), msg: e.to_string() })?;
    ensure!(bytes2 == bytes, format!("{}/bincode/reserialize", tag), "re-serialisation of the restored copy is not byte-identical");
    // ---- JSON
    let s = match catch(|| serde_json::to_string(m)) {
        Ok(Ok(s)) => s,
        Ok(Err(e)) => return fail(format!("{}/json/serialize", tag), format!("serialisation failed: {}", e)),
        Err(p) => return fail(format!("{}/json/serialize", tag), format!("serialisation panicked: {}", p)),
    };
    let m3: M = match catch(|| serde_json::from_str::<M>(&s)) {
        Ok(Ok(x)) => x,
        Ok(Err(e)) => return fail(format!("{}/json/deserialize", tag), format!("deserialisation failed: {} (document: {})", e, &s[..s.len().min(300)])),
        Err(p) => return fail(format!("{}/json/deserialize", tag), format!("deserialisation panicked: {}", p)),
    };
    if let Some(eq) = eq {
        ensure!(eq(m, &m3), format!("{}/json/not-equal", tag), "restored copy (JSON) does not compare equal to the original");
    }
    let o3 = catch(|| obs(&m3)).map_err(|p| Fail { sig: format!("{}/json/observe", tag), msg: p })?.map_err(|e| Fail { sig: format!("{}/json/observe", tag), msg: e })?;
    vec_close(tag, "json/observable-differs", &o0, &o3, 1e-12)?;
    Ok(())
}

macro_rules! model {
    // deterministic estimator with PartialEq: fit twice + fit on other data
    ($ctx:expr, $tag:expr, $fit:expr, $fit2:expr, $obs:expr) => {{
        let tag: &str = $tag;
        $ctx.label(tag.to_string());
        let m = match catch(|| $fit) {
            Ok(Ok(m)) => m,
            Ok(Err(e)) => return fail(format!("{}/fit", tag), format!("fit failed: {}", e)),
            Err(p) => return fail(format!("{}/fit", tag), format!("fit panicked: {}", p)),
        };
        roundtrip(tag, &m, &$obs, Some(&|a, b| a == b))?;
        let again = catch(|| $fit).map_err(|p| Fail { sig: format!("{}/fit", tag), msg: p })?.map_err(|e| Fail { sig: format!("{}/fit", tag), msg: e.to_string() })?;
        ensure!(m == again, format!("{}/refit-not-equal", tag), "a second fit on the same data does not compare equal");
        let other = catch(|| $fit2).map_err(|p| Fail { sig: format!("{}/fit", tag), msg: p })?.map_err(|e| Fail { sig: format!("{}/fit", tag), msg: e.to_string() })?;
        ensure!(!(m == other), format!("{}/equal-to-different-model", tag), "compares equal to a model fitted on different rows and targets");
    }};
}

fn dm(m: &Mat) -> DM {
    <DenseB as Build<f64>>::build(m)
}

fn pv(r: Result<Vec<f64>, smartcore::error::Failed>) -> Result<Vec<f64>, String> {
    r.map_err(|e| e.to_string())
}

fn check_linear(c: &RtCase, ctx: &mut Ctx) -> Result<(), Fail> {
    ctx.nontrivial(true);
    let (x, x2, q) = (dm(&c.x), dm(&c.x2), dm(&c.q));
    let alpha = 0.05 + c.param;
    match c.which {
        0 => model!(ctx, "linear_regression/qr", LinearRegression::fit(&x, &c.y_reg, Default::default()), LinearRegression::fit(&x2, &c.y2_reg, Default::default()), |m: &LinearRegression<f64, DM>| pv(m.predict(&q))),
        1 => model!(ctx, "linear_regression/svd", LinearRegression::fit(&x, &c.y_reg, LinearRegressionParameters::default().with_solver(LinearRegressionSolverName::SVD)), LinearRegression::fit(&x2, &c.y2_reg, Default::default()), |m: &LinearRegression<f64, DM>| pv(m.predict(&q))),
        2 => model!(ctx, "ridge", RidgeRegression::fit(&x, &c.y_reg, RidgeRegressionParameters::default().with_alpha(alpha)), RidgeRegression::fit(&x2, &c.y2_reg, RidgeRegressionParameters::default().with_alpha(alpha)), |m: &RidgeRegression<f64, DM>| pv(m.predict(&q))),
        3 => model!(ctx, "lasso", Lasso::fit(&x, &c.y_reg, LassoParameters::default().with_alpha(alpha * 0.1)), Lasso::fit(&x2, &c.y2_reg, LassoParameters::default().with_alpha(alpha * 0.1)), |m: &Lasso<f64, DM>| pv(m.predict(&q))),
        4 => model!(ctx, "elastic_net", ElasticNet::fit(&x, &c.y_reg, ElasticNetParameters::default().with_alpha(alpha * 0.1)), ElasticNet::fit(&x2, &c.y2_reg, ElasticNetParameters::default().with_alpha(alpha * 0.1)), |m: &ElasticNet<f64, DM>| pv(m.predict(&q))),
        _ => model!(ctx, "logistic_regression", LogisticRegression::fit(&x, &c.y_cls, LogisticRegressionParameters::default().with_alpha(alpha)), LogisticRegression::fit(&x2, &c.y2_cls.iter().map(|v| v + 10.0).collect::<Vec<f64>>(), LogisticRegressionParameters::default().with_alpha(alpha)), |m: &LogisticRegression<f64, DM>| pv(m.predict(&q))),
    }
    Ok(())
}

fn check_neighbors(c: &RtCase, ctx: &mut Ctx) -> Result<(), Fail> {
    ctx.nontrivial(true);
    let (x, x2, q) = (dm(&c.x), dm(&c.x2), dm(&c.q));
    let alg = if c.which % 2 == 0 { KNNAlgorithmName::CoverTree } else { KNNAlgorithmName::LinearSearch };
    let w = if c.param > 0.5 { KNNWeightFunction::Distance } else { KNNWeightFunction::Uniform };
    let rows: Vec<Vec<f64>> = c.x.rows();
    let qrows: Vec<Vec<f64>> = c.q.rows();
    // "does not equal a model fitted on different rows and targets", tested on a minimally different model as
    // well: same shape, one feature value of one row and the target of that row changed (class set unchanged).
    // The changed position is generated (any row, not only the first or the last). Note that the library's
    // k-NN equality looks at k, the classes and the stored targets only, so a difference in the rows alone is
    // not required to be detected (the property speaks of different rows AND targets).
    if c.which <= 3 {
        let n = c.x.r;
        let pos = ((c.param * 7919.0) as usize) % n;
        let mut x_alt = c.x.clone();
        x_alt.set(pos, 0, x_alt.at(pos, 0) + 1.0);
        let xa = dm(&x_alt);
        if c.which <= 1 {
            let mut y_alt = c.y_cls.clone();
            // switch row `pos` to another class that occurs, provided its own class keeps another member
            let others = c.y_cls.iter().filter(|v| **v == c.y_cls[pos]).count();
            if let Some(alt) = c.y_cls.iter().find(|v| **v != c.y_cls[pos]) {
                if others >= 2 {
                    y_alt[pos] = *alt;
                }
            }
            let p = || KNNClassifierParameters::default().with_algorithm(alg.clone()).with_weight(w.clone());
            if y_alt != c.y_cls {
                if let (Ok(a), Ok(b)) = (KNNClassifier::fit(&x, &c.y_cls, p()), KNNClassifier::fit(&xa, &y_alt, p())) {
                    ensure!(!(a == b) && !(b == a), "knn_classifier/equal-to-minimally-different-model", "models fitted on data differing in row {} (one feature value and the target) compare equal", pos);
                }
            }
        } else {
            let mut y_alt = c.y_reg.clone();
            y_alt[pos] += 1.0;
            let p = || KNNRegressorParameters::default().with_algorithm(alg.clone()).with_weight(w.clone());
            if let (Ok(a), Ok(b)) = (KNNRegressor::fit(&x, &c.y_reg, p()), KNNRegressor::fit(&xa, &y_alt, p())) {
                ensure!(!(a == b) && !(b == a), "knn_regressor/equal-to-minimally-different-model", "models fitted on data differing in row {} (one feature value and the target) compare equal", pos);
            }
        }
    }
    match c.which {
        0 | 1 => model!(ctx, if c.which == 0 { "knn_classifier/cover_tree" } else { "knn_classifier/linear" }, KNNClassifier::fit(&x, &c.y_cls, KNNClassifierParameters::default().with_algorithm(alg.clone()).with_weight(w.clone())), KNNClassifier::fit(&x2, &c.y2_cls, KNNClassifierParameters::default().with_algorithm(alg.clone())), |m: &KNNClassifier<f64, _>| pv(m.predict(&q))),
        2 | 3 => model!(ctx, if c.which == 2 { "knn_regressor/cover_tree" } else { "knn_regressor/linear" }, KNNRegressor::fit(&x, &c.y_reg, KNNRegressorParameters::default().with_algorithm(alg.clone()).with_weight(w.clone())), KNNRegressor::fit(&x2, &c.y2_reg, KNNRegressorParameters::default().with_algorithm(alg.clone())), |m: &KNNRegressor<f64, _>| pv(m.predict(&q))),
        4 => {
            ctx.label("cover_tree");
            let t = CoverTree::new(rows.clone(), Distances::euclidian()).map_err(|e| Fail { sig: "cover_tree/new".into(), msg: e.to_string() })?;
            roundtrip("cover_tree", &t, &|t: &CoverTree<Vec<f64>, f64, _>| {
                let mut out = vec![];
                for qr in &qrows {
                    for (i, d, _) in t.find(qr, 3).map_err(|e| e.to_string())? {
                        out.push(i as f64);
                        out.push(d);
                    }
                }
                Ok(out)
            }, Some(&|a, b| a == b))?;
        }
        _ => {
            ctx.label("linear_search");
            let t = LinearKNNSearch::new(rows.clone(), Distances::manhattan()).map_err(|e| Fail { sig: "linear_search/new".into(), msg: e.to_string() })?;
            roundtrip("linear_search", &t, &|t: &LinearKNNSearch<Vec<f64>, f64, _>| {
                let mut out = vec![];
                for qr in &qrows {
                    for (i, d, _) in t.find(qr, 3).map_err(|e| e.to_string())? {
                        out.push(i as f64);
                        out.push(d);
                    }
                }
                Ok(out)
            }, None)?;
        }
    }
    Ok(())
}

/// Every other case of the tree family uses zero-centred coded features: even columns become -1 / +1
/// flags (split thresholds exactly 0.0), odd columns centred integers - boundary values for any
/// tolerance-based comparison inside model equality.
fn zero_centred(m: &Mat, like: &Mat) -> Mat {
    let mu = like.col_means();
    let sd: Vec<f64> = like.col_vars(0).iter().map(|v| v.sqrt().max(1e-300)).collect();
    Mat::from_fn(m.r, m.c, |i, j| {
        let t = (m.at(i, j) - mu[j]) / sd[j];
        if j % 2 == 0 {
            if t > 0.0 {
                1.0
            } else {
                -1.0
            }
        } else {
            (2.0 * t).round()
        }
    })
}

fn check_trees(c: &RtCase, ctx: &mut Ctx) -> Result<(), Fail> {
    ctx.nontrivial(true);
    let coded = ((c.param * 1024.0) as u64) % 2 == 1;
    ctx.label_if(coded, "trees/zero-centred-coded-features");
    // (the "different model" is always fitted on the continuous second data set: two coarsely coded data sets can
    // legitimately produce the very same tree, e.g. one split at 0 with the same leaf labels)
    let (x, x2, q) = if coded { (dm(&zero_centred(&c.x, &c.x)), dm(&c.x2), dm(&zero_centred(&c.q, &c.x))) } else { (dm(&c.x), dm(&c.x2), dm(&c.q)) };
    let seed = (c.param * 1e6) as u64;
    // optional parameter (max_depth) set in every other case
    let limited = ((c.param * 512.0) as u64) % 2 == 1;
    ctx.label_if(limited, "trees/max_depth-set");
    let tcp = || if limited { DecisionTreeClassifierParameters::default().with_max_depth(3) } else { DecisionTreeClassifierParameters::default() };
    let trp = || if limited { DecisionTreeRegressorParameters::default().with_max_depth(3) } else { DecisionTreeRegressorParameters::default() };
    match c.which {
        0 => model!(ctx, "tree_classifier", DecisionTreeClassifier::fit(&x, &c.y_cls, tcp()), DecisionTreeClassifier::fit(&x2, &c.y2_cls, tcp()), |m: &DecisionTreeClassifier<f64>| pv(m.predict(&q))),
        1 => model!(ctx, "tree_regressor", DecisionTreeRegressor::fit(&x, &c.y_reg, trp()), DecisionTreeRegressor::fit(&x2, &c.y2_reg, trp()), |m: &DecisionTreeRegressor<f64>| pv(m.predict(&q))),
        2 => model!(ctx, "forest_classifier", RandomForestClassifier::fit(&x, &c.y_cls, RandomForestClassifierParameters::default().with_n_trees(7).with_seed(seed).with_keep_samples(true)), RandomForestClassifier::fit(&x2, &c.y2_cls, RandomForestClassifierParameters::default().with_n_trees(5).with_seed(seed)), |m: &RandomForestClassifier<f64>| {
            // predictions and, since the bootstrap masks are kept, the out-of-bag predictions
            let mut o = pv(m.predict(&q))?;
            o.extend(pv(m.predict_oob(&x))?);
            Ok(o)
        }),
        _ => model!(ctx, "forest_regressor", RandomForestRegressor::fit(&x, &c.y_reg, RandomForestRegressorParameters::default().with_n_trees(7).with_seed(seed).with_keep_samples(true)), RandomForestRegressor::fit(&x2, &c.y2_reg, RandomForestRegressorParameters::default().with_n_trees(5).with_seed(seed)), |m: &RandomForestRegressor<f64>| {
            let mut o = pv(m.predict(&q))?;
            o.extend(pv(m.predict_oob(&x))?);
            Ok(o)
        }),
    }
    Ok(())
}

fn check_bayes(c: &RtCase, ctx: &mut Ctx) -> Result<(), Fail> {
    ctx.nontrivial(true);
    let counts = |m: &Mat, k: f64| m.map(|v| (v.abs() * k).floor().min(5.0));
    let (x, x2, q) = (dm(&c.x), dm(&c.x2), dm(&c.q));
    let (xc, x2c, qc) = (dm(&counts(&c.x, 2.0)), dm(&counts(&c.x2, 2.0)), dm(&counts(&c.q, 1.0)));
    let ycat: Vec<f64> = c.y_cls.iter().map(|v| if *v < 0.0 { 0.0 } else if *v < 3.0 { 1.0 } else { 2.0 }).collect();
    let y2cat: Vec<f64> = c.y2_cls.iter().map(|v| if *v < 0.0 { 1.0 } else { 0.0 }).collect();
    let alpha = 0.1 + c.param;
    match c.which {
        0 => {
            // A class whose rows agree in some feature has zero variance there; the Gaussian
            // log-likelihood is then 0/0 and `predict` is undefined (it panics on the NaN).  That is
            // outside what a round trip can be asked to preserve, so the observable of such a model
            // is its stored statistics instead of its predictions.
            let degenerate = {
                let mut classes: Vec<f64> = c.y_cls.clone();
                classes.sort_by(|a, b| a.partial_cmp(b).unwrap());
                classes.dedup();
                classes.iter().any(|cl| {
                    let rows: Vec<usize> = (0..c.x.r).filter(|i| c.y_cls[*i] == *cl).collect();
                    (0..c.x.c).any(|j| rows.iter().all(|i| c.x.at(*i, j) == c.x.at(rows[0], j)))
                })
            };
            ctx.label_if(degenerate, "gaussian_nb/zero-variance-class");
            model!(ctx, "gaussian_nb", GaussianNB::fit(&x, &c.y_cls, GaussianNBParameters::default()), GaussianNB::fit(&x2, &c.y2_cls, GaussianNBParameters::default()), |m: &GaussianNB<f64, DM>| {
                if degenerate {
                    Ok(m.theta().iter().chain(m.var().iter()).flatten().cloned().chain(m.class_priors().iter().cloned()).collect())
                } else {
                    pv(m.predict(&q))
                }
            })
        }
        1 => model!(ctx, "multinomial_nb", MultinomialNB::fit(&xc, &c.y_cls, MultinomialNBParameters::default().with_alpha(alpha)), MultinomialNB::fit(&x2c, &c.y2_cls, MultinomialNBParameters::default().with_alpha(alpha)), |m: &MultinomialNB<f64, DM>| pv(m.predict(&qc))),
        2 => {
            // optional parameter left unset in every other case: binarize = None on data that is already 0/1
            let unset = ((c.param * 512.0) as u64) % 2 == 1;
            ctx.label_if(unset, "bernoulli_nb/binarize-unset");
            let bin = |m: &Mat| dm(&m.map(|v| if v > 0.5 { 1.0 } else { 0.0 }));
            let (xb, x2b, qb) = (bin(&c.x), bin(&c.x2), bin(&c.q));
            let mk = || {
                let mut p = BernoulliNBParameters::default().with_alpha(alpha);
                p.binarize = if unset { None } else { Some(0.5) };
                p
            };
            if unset {
                model!(ctx, "bernoulli_nb", BernoulliNB::fit(&xb, &c.y_cls, mk()), BernoulliNB::fit(&x2b, &c.y2_cls, mk()), |m: &BernoulliNB<f64, DM>| pv(m.predict(&qb)))
            } else {
                model!(ctx, "bernoulli_nb", BernoulliNB::fit(&x, &c.y_cls, mk()), BernoulliNB::fit(&x2, &c.y2_cls, mk()), |m: &BernoulliNB<f64, DM>| pv(m.predict(&q)))
            }
        }
        _ => model!(ctx, "categorical_nb", CategoricalNB::fit(&xc, &ycat, CategoricalNBParameters::default().with_alpha(alpha)), CategoricalNB::fit(&x2c, &y2cat, CategoricalNBParameters::default().with_alpha(alpha)), |m: &CategoricalNB<f64, DM>| pv(m.predict(&dm(&counts(&c.x, 2.0))))),
    }
    Ok(())
}

fn svm_with<K: Kernel<f64, Vec<f64>> + Serialize + DeserializeOwned + Clone>(c: &RtCase, ctx: &mut Ctx, kname: &str, k: K) -> Result<(), Fail> {
    let (x, x2, q) = (dm(&c.x), dm(&c.x2), dm(&c.q));
    // two classes for the classifier
    let yb: Vec<f64> = c.y_cls.iter().map(|v| if *v < 0.0 { -2.0 } else { 1.0 }).collect();
    let yb = if yb.iter().all(|v| *v == yb[0]) { yb.iter().enumerate().map(|(i, v)| if i == 0 { -v - 1.0 } else { *v }).collect() } else { yb };
    let y2b: Vec<f64> = c.y2_reg.iter().map(|v| if *v > 7.0 { 0.0 } else { 4.0 }).collect();
    if c.which % 2 == 0 {
        let tag = format!("svc/{}", kname);
        ctx.label(tag.clone());
        smartcore::verif_hooks::set_schedule_seed(Some(17));
        let m = catch(|| SVC::fit(&x, &yb, SVCParameters::default().with_c(1.0 + c.param).with_kernel(k.clone())));
        let other = catch(|| SVC::fit(&x2, &y2b, SVCParameters::default().with_c(0.5).with_kernel(k.clone())));
        smartcore::verif_hooks::set_schedule_seed(None);
        let m = m.map_err(|p| Fail { sig: format!("{}/fit", tag), msg: p })?.map_err(|e| Fail { sig: format!("{}/fit", tag), msg: e.to_string() })?;
        roundtrip(&tag, &m, &|m: &SVC<f64, DM, K>| pv(m.decision_function(&q)), Some(&|a, b| a == b))?;
        if let Ok(Ok(o)) = other {
            if y2b.iter().any(|v| *v != y2b[0]) {
                ensure!(!(m == o), format!("{}/equal-to-different-model", tag), "compares equal to a model fitted on different rows and targets");
            }
        }
    } else {
        let tag = format!("svr/{}", kname);
        ctx.label(tag.clone());
        let m = catch(|| SVR::fit(&x, &c.y_reg, SVRParameters::default().with_c(1.0 + c.param).with_eps(0.1).with_kernel(k.clone()))).map_err(|p| Fail { sig: format!("{}/fit", tag), msg: p })?.map_err(|e| Fail { sig: format!("{}/fit", tag), msg: e.to_string() })?;
        roundtrip(&tag, &m, &|m: &SVR<f64, DM, K>| pv(m.predict(&q)), Some(&|a, b| a == b))?;
        let again = catch(|| SVR::fit(&x, &c.y_reg, SVRParameters::default().with_c(1.0 + c.param).with_eps(0.1).with_kernel(k.clone()))).map_err(|p| Fail { sig: format!("{}/fit", tag), msg: p })?.map_err(|e| Fail { sig: format!("{}/fit", tag), msg: e.to_string() })?;
        ensure!(m == again, format!("{}/refit-not-equal", tag), "a second fit on the same data does not compare equal");
        let other = catch(|| SVR::fit(&x2, &c.y2_reg, SVRParameters::default().with_c(1.0 + c.param).with_eps(0.1).with_kernel(k.clone()))).map_err(|p| Fail { sig: format!("{}/fit", tag), msg: p })?.map_err(|e| Fail { sig: format!("{}/fit", tag), msg: e.to_string() })?;
        ensure!(!(m == other), format!("{}/equal-to-different-model", tag), "compares equal to a model fitted on different rows and targets");
    }
    Ok(())
}

fn check_svm(c: &RtCase, ctx: &mut Ctx) -> Result<(), Fail> {
    ctx.nontrivial(true);
    let p = c.x.c;
    match c.which / 2 {
        0 => svm_with(c, ctx, "linear", Kernels::linear()),
        1 => svm_with(c, ctx, "rbf", Kernels::rbf(0.2 + c.param)),
        2 => svm_with(c, ctx, "polynomial", Kernels::polynomial_with_degree(2.0, p)),
        _ => {
            if c.which % 2 == 0 {
                svm_with(c, ctx, "sigmoid", Kernels::sigmoid(0.05, 0.1))
            } else {
                // SVR with a non-PSD kernel is outside the termination claim: use RBF instead
                svm_with(c, ctx, "rbf", Kernels::rbf(1.0))
            }
        }
    }
}

fn check_cluster(c: &RtCase, ctx: &mut Ctx) -> Result<(), Fail> {
    ctx.nontrivial(true);
    let (x, x2, q) = (dm(&c.x), dm(&c.x2), dm(&c.q));
    match c.which {
        0 => {
            ctx.label("kmeans");
            smartcore::verif_hooks::set_schedule_seed(Some(5));
            let m = catch(|| KMeans::fit(&x, KMeansParameters::default().with_k(3)));
            smartcore::verif_hooks::set_schedule_seed(None);
            let m = m.map_err(|p| Fail { sig: "kmeans/fit".into(), msg: p })?.map_err(|e| Fail { sig: "kmeans/fit".into(), msg: e.to_string() })?;
            roundtrip("kmeans", &m, &|m: &KMeans<f64>| pv(m.predict(&q)), Some(&|a, b| a == b))?;
        }
        1 | 2 => {
            let alg = if c.which == 1 { KNNAlgorithmName::CoverTree } else { KNNAlgorithmName::LinearSearch };
            let eps = 1.0 + c.param * 2.0;
            model!(ctx, if c.which == 1 { "dbscan/cover_tree" } else { "dbscan/linear" }, DBSCAN::fit(&x, DBSCANParameters::default().with_eps(eps).with_min_samples(3).with_algorithm(alg.clone())), DBSCAN::fit(&x2, DBSCANParameters::default().with_eps(eps * 0.5 + 0.1).with_min_samples(2).with_algorithm(alg.clone())), |m: &DBSCAN<f64, _>| pv(m.predict(&q)));
        }
        3 | 4 => model!(ctx, if c.which == 3 { "pca/covariance" } else { "pca/correlation" }, PCA::fit(&x, PCAParameters::default().with_n_components(2).with_use_correlation_matrix(c.which == 4)), PCA::fit(&x2.transpose().transpose(), PCAParameters::default().with_n_components(1)), |m: &PCA<f64, DM>| m.transform(&q).map(|t| to_mat(&t).d).map_err(|e| e.to_string())),
        _ => model!(ctx, "truncated_svd", TruncatedSVD::fit(&x, SVDParameters::default().with_n_components(1)), TruncatedSVD::fit(&x2, SVDParameters::default().with_n_components(1)), |m: &TruncatedSVD<f64, DM>| m.transform(&q).map(|t| to_mat(&t).d).map_err(|e| e.to_string())),
    }
    Ok(())
}

fn dist_rt<D: Distance<Vec<f64>, f64> + Serialize + DeserializeOwned>(tag: &str, d: &D, c: &RtCase) -> Result<(), Fail> {
    let rows = c.x.rows();
    let q = c.q.rows();
    roundtrip(tag, d, &|d: &D| Ok(rows.iter().take(6).flat_map(|r| q.iter().map(move |s| d.distance(r, s))).collect()), None)
}

fn kern_rt<K: Kernel<f64, Vec<f64>> + Serialize + DeserializeOwned>(tag: &str, k: &K, c: &RtCase) -> Result<(), Fail> {
    let rows = c.x.rows();
    let q = c.q.rows();
    roundtrip(tag, k, &|k: &K| Ok(rows.iter().take(6).flat_map(|r| q.iter().map(move |s| k.apply(r, s))).collect()), None)
}

fn check_functions(c: &RtCase, ctx: &mut Ctx) -> Result<(), Fail> {
    ctx.nontrivial(true);
    let names = ["euclidian", "manhattan", "minkowski", "hamming", "mahalanobis", "linear_kernel", "rbf_kernel", "polynomial_kernel", "sigmoid_kernel"];
    ctx.label(names[c.which as usize % 9]);
    match c.which % 9 {
        0 => dist_rt("distance/euclidian", &Distances::euclidian(), c),
        1 => dist_rt("distance/manhattan", &Distances::manhattan(), c),
        2 => dist_rt("distance/minkowski", &Distances::minkowski(1 + (c.param * 4.0) as u16), c),
        3 => dist_rt("distance/hamming", &Distances::hamming(), c),
        4 => {
            let m: Mahalanobis<f64, DM> = no_panic("mahalanobis/new", || Distances::mahalanobis(&dm(&c.x)))?;
            dist_rt("distance/mahalanobis", &m, c)
        }
        5 => kern_rt("kernel/linear", &Kernels::linear(), c),
        6 => kern_rt("kernel/rbf", &Kernels::rbf(c.param), c),
        7 => kern_rt("kernel/polynomial", &Kernels::polynomial(2.0, c.param, 1.0), c),
        _ => kern_rt("kernel/sigmoid", &Kernels::sigmoid(c.param, 0.5), c),
    }
}

// ------------------------------------------------------------------ dense matrices

#[derive(Clone, Debug, Serialize, Deserialize)]
pub struct DenseCase {
    pub f32: bool,
    pub a: Mat,
}

fn strat_dense(_t: Tier) -> BoxedStrategy<DenseCase> {
    // "any shape": one case in sixteen is an empty matrix (0 x 0, 0 x k or k x 0)
    prop_oneof![
        15 => (super::c03::shape(12), any::<bool>()).prop_flat_map(|((r, c), f32)| super::c03::values(r, c).prop_map(move |a| DenseCase { f32, a })),
        1 => (0usize..=4, 0usize..=4, any::<bool>(), any::<bool>()).prop_map(|(r, c, zero_rows, f32)| { let (r, c) = if zero_rows { (0, c) } else { (r, 0) }; DenseCase { f32, a: Mat { r, c, d: vec![] } } }),
    ]
    .boxed()
}

fn dense_run<T: smartcore::math::num::RealNumber + Serialize + DeserializeOwned>(a: &Mat) -> Result<(), Fail> {
    let m = if a.r * a.c == 0 { DenseMatrix::<T>::zeros(a.r, a.c) } else { <DenseB as Build<T>>::build(a) };
    roundtrip("dense_matrix", &m, &|m: &DenseMatrix<T>| Ok(to_mat(m).d.iter().cloned().chain([m.shape().0 as f64, m.shape().1 as f64]).collect()), Some(&|x, y| x == y))?;
    // the map form with permuted keys restores the same matrix; nrows / ncols are not swapped
    let v = serde_json::to_value(&m).map_err(|e| Fail { sig: "dense_matrix/json".into(), msg: e.to_string() })?;
    ensure!(v["nrows"].as_u64() == Some(a.r as u64) && v["ncols"].as_u64() == Some(a.c as u64), "dense_matrix/json-fields", "serialised nrows/ncols = {}/{} for a {}x{} matrix", v["nrows"], v["ncols"], a.r, a.c);
    let permuted = format!("{{\"values\":{},\"ncols\":{},\"nrows\":{}}}", v["values"], v["ncols"], v["nrows"]);
    let back: DenseMatrix<T> = serde_json::from_str(&permuted).map_err(|e| Fail { sig: "dense_matrix/json-permuted-keys".into(), msg: e.to_string() })?;
    ensure!(to_mat(&back) == to_mat(&m) && back.shape() == (a.r, a.c), "dense_matrix/json-permuted-keys", "map form with permuted keys restores a different matrix");
    // a different matrix is not equal
    if a.r * a.c >= 1 {
        let mut b = a.clone();
        // the changed entry sits at a position derived from the content (first, last and anywhere in between)
        let pos = (a.d.iter().fold(a.r as u64 * 131 + a.c as u64, |h, x| h.wrapping_mul(31).wrapping_add(x.to_bits() >> 44)) % (a.r * a.c) as u64) as usize;
        b.d[pos] += 1.0;
        ensure!(!(<DenseB as Build<T>>::build(&b) == m), "dense_matrix/equal-to-different", "matrices differing in one entry compare equal");
        if a.r != a.c {
            let t = Mat { r: a.c, c: a.r, d: a.d.clone() };
            ensure!(!(<DenseB as Build<T>>::build(&t) == m), "dense_matrix/equal-to-different-shape", "matrices of different shape compare equal");
        }
    }
    Ok(())
}

fn check_dense(c: &DenseCase, ctx: &mut Ctx) -> Result<(), Fail> {
    ctx.nontrivial(c.a.r >= 2 && c.a.c >= 2 && c.a.r != c.a.c);
    ctx.label_if(c.f32, "f32");
    if c.f32 {
        dense_run::<f32>(&to_f32_grid(&c.a))
    } else {
        dense_run::<f64>(&c.a)
    }
}

fn s_linear(_t: Tier) -> BoxedStrategy<RtCase> {
    strat_family("linear", 6)
}
fn s_neighbors(_t: Tier) -> BoxedStrategy<RtCase> {
    strat_family("neighbors", 6)
}
fn s_trees(_t: Tier) -> BoxedStrategy<RtCase> {
    strat_family("trees", 4)
}
fn s_bayes(_t: Tier) -> BoxedStrategy<RtCase> {
    strat_family("bayes", 4)
}
fn s_svm(_t: Tier) -> BoxedStrategy<RtCase> {
    strat_family("svm", 8)
}
fn s_cluster(_t: Tier) -> BoxedStrategy<RtCase> {
    strat_family("cluster", 6)
}
fn s_functions(_t: Tier) -> BoxedStrategy<RtCase> {
    strat_family("functions", 9)
}

pub fn property() -> Property {
    Property {
        id: "C19",
        quick_mult: 4,
        rule: "for each of 43 serialisable public types (2 linear-regression solvers, ridge, Lasso, elastic net, logistic regression, k-NN classifier / regressor x 2 algorithms, cover tree, linear search, trees x 2, forests x 2, four naive Bayes variants, SVC / SVR x 4 kernels, k-means, DBSCAN x 2 backends, PCA x 2 modes, truncated SVD, five distances, four kernels, DenseMatrix<f32/f64>) a model is fitted on generated data (10..40 rows, 2..5 features, 2..3 classes) and observed on fresh generated queries; a second data set with 5 more rows and different targets provides the 'different model'. non-trivial = every case (dense matrices: non-square with both dimensions >= 2); distinct = distinct serialised case",
        assumptions: vec![
            "JSON is parsed with serde_json's float_roundtrip feature, so decimal rounding is exact and the restored model must compare equal; observables through JSON may differ by 1e-12 relative".into(),
            "refit equality is asserted for deterministic estimators only (not SVC, not k-means); SVR with the sigmoid kernel is replaced by RBF (termination is only claimed for PSD kernels)".into(),
            "types without PartialEq (distances, kernels, linear search) are checked through their observable only".into(),
        ],
        subs: vec![
            sub("linear", (360, 12000), s_linear, check_linear),
            sub("neighbors", (360, 12000), s_neighbors, check_neighbors),
            sub("trees", (240, 8000), s_trees, check_trees),
            sub("bayes", (240, 8000), s_bayes, check_bayes),
            sub("svm", (480, 12000), s_svm, check_svm),
            sub("cluster_decomposition", (360, 12000), s_cluster, check_cluster),
            sub("distances_kernels", (540, 12000), s_functions, check_functions),
            sub("dense_matrix", (1500, 40000), strat_dense, check_dense),
        ],
    }
}
