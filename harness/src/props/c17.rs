//! C17 — distance functions: closed forms and metric axioms.
use crate::engine::*;
use crate::gen::*;
use crate::matops::*;
use crate::oracle::{self, Mat};
use proptest::collection::vec;
use proptest::prelude::*;
use serde::{Deserialize, Serialize};
use smartcore::linalg::naive::dense_matrix::DenseMatrix;
use smartcore::math::distance::mahalanobis::Mahalanobis;
use smartcore::math::distance::{Distance, Distances};
use smartcore::math::num::RealNumber;

#[derive(Clone, Debug, Serialize, Deserialize)]
pub struct LpCase {
    pub f32: bool,
    pub p: u16,
    pub x: Vec<f64>,
    pub y: Vec<f64>,
    pub z: Vec<f64>,
    pub log2_scale: i32,
}

fn triple(n: usize) -> BoxedStrategy<(Vec<f64>, Vec<f64>, Vec<f64>)> {
    prop_oneof![
        6 => (unit_vec(n), unit_vec(n), unit_vec(n)),
        // equal vectors
        1 => unit_vec(n).prop_map(|x| (x.clone(), x.clone(), x)),
        // one-coordinate differences
        2 => (unit_vec(n), any::<u16>(), unit(), unit()).prop_map(move |(x, s, a, b)| {
            let k = idx(s, n);
            let (mut y, mut z) = (x.clone(), x.clone());
            y[k] += a;
            z[k] += b;
            (x, y, z)
        }),
        // collinear
        1 => (unit_vec(n), unit_vec(n), -4i32..=4).prop_map(|(x, d, t)| {
            let y: Vec<f64> = x.iter().zip(&d).map(|(a, b)| a + b).collect();
            let z: Vec<f64> = x.iter().zip(&d).map(|(a, b)| a + b * t as f64).collect();
            (x, y, z)
        }),
        // integers (many exactly equal coordinates)
        2 => (vec(small_int(-3, 3), n), vec(small_int(-3, 3), n), vec(small_int(-3, 3), n)),
    ]
    .boxed()
}

fn strat_lp(_t: Tier) -> BoxedStrategy<LpCase> {
    (1usize..=30, 1u16..=8, prop::bool::weighted(0.3), -1000i32..=1000, prop::bool::weighted(0.5))
        .prop_flat_map(|(n, p, f32, frac, unit_scale)| {
            // admissible scale exponents so that |d|^p * n stays finite and normal in the type under test
            let e = if f32 { 126.0 } else { 1022.0 };
            // every case also evaluates the Euclidean distance (order 2), so the range is that of max(p, 2)
            let pe = p.max(2) as f64;
            let hi = ((e - 2.0 - (n as f64).log2()) / pe - 2.0).floor();
            let lo = (10.0 - (e - 30.0) / pe).ceil();
            let k = if unit_scale { 0 } else if frac >= 0 { (hi * frac as f64 / 1000.0) as i32 } else { (lo * (-frac) as f64 / 1000.0) as i32 };
            triple(n).prop_map(move |(x, y, z)| LpCase { f32, p, x, y, z, log2_scale: k })
        })
        .boxed()
}

fn lp_run<T: RealNumber>(case: &LpCase, ctx: &mut Ctx) -> Result<(), Fail> {
    let s = 2f64.powi(case.log2_scale);
    let g = |v: &Vec<f64>| -> Vec<f64> { v.iter().map(|a| ft::<T>(tf::<T>(a * s))).collect() };
    let (x, y, z) = (g(&case.x), g(&case.y), g(&case.z));
    let (tx, ty, tz): (Vec<T>, Vec<T>, Vec<T>) = (tvec(&x), tvec(&y), tvec(&z));
    let n = x.len();
    let eps = ft(T::epsilon());
    let p = case.p as f64;
    // powf carries a few ulps of its own: 128 eps (len + 4p + 4) leaves two decades above the worst ratio observed
    let rel = 128.0 * eps * (n as f64 + 4.0 * p + 4.0);
    let lp = |a: &[f64], b: &[f64], p: f64| -> f64 {
        // scaled to stay inside f64 whatever the magnitude
        let m = a.iter().zip(b).map(|(u, v)| (u - v).abs()).fold(0.0, f64::max);
        if m == 0.0 {
            return 0.0;
        }
        m * a.iter().zip(b).map(|(u, v)| ((u - v).abs() / m).powf(p)).sum::<f64>().powf(1.0 / p)
    };
    let euc = Distances::euclidian();
    let man = Distances::manhattan();
    let mink = Distances::minkowski(case.p);
    type D<'a, T> = (&'a str, Box<dyn Fn(&Vec<T>, &Vec<T>) -> T + 'a>, f64);
    let ds: Vec<D<T>> = vec![
        ("euclidian", Box::new(|a, b| euc.distance(a, b)), 2.0),
        ("manhattan", Box::new(|a, b| man.distance(a, b)), 1.0),
        ("minkowski", Box::new(|a, b| mink.distance(a, b)), p),
    ];
    // a cloned metric is the same metric (Minkowski carries its order)
    {
        let (c1, c2): (T, T) = (mink.clone().distance(&tx, &ty), mink.distance(&tx, &ty));
        ensure!(ft(c1).to_bits() == ft(c2).to_bits(), "minkowski/clone-differs", "clone().distance = {:e}, original {:e}", ft(c1), ft(c2));
    }
    let mut vals = vec![];
    for (name, f, pp) in &ds {
        let d = |a: &Vec<T>, b: &Vec<T>| -> Result<f64, Fail> { Ok(ft(no_panic(name, || f(a, b))?)) };
        let (dxy, dyx, dyz, dxz, dxx) = (d(&tx, &ty)?, d(&ty, &tx)?, d(&ty, &tz)?, d(&tx, &tz)?, d(&tx, &tx)?);
        let exy = lp(&x, &y, *pp);
        ensure!(dxx == 0.0, format!("{}/identity", name), "{}: d(x,x) = {:e}", name, dxx);
        ensure!(dxy >= 0.0 && dyz >= 0.0 && dxz >= 0.0, format!("{}/negative", name), "{}: negative or NaN distance {:e} {:e} {:e}", name, dxy, dyz, dxz);
        ensure!(dxy == dyx, format!("{}/symmetry", name), "{}: d(x,y) = {:e} but d(y,x) = {:e}", name, dxy, dyx);
        ctx.bound(&format!("{}/closed-form", name), (dxy - exy).abs(), rel * exy)?;
        ensure!(dxz <= dxy + dyz + rel * (dxy + dyz + dxz), format!("{}/triangle", name), "{}: d(x,z) = {:e} > d(x,y) + d(y,z) = {:e} + {:e}", name, dxz, dxy, dyz);
        ensure!((dxy == 0.0) == (x == y), format!("{}/zero-iff-equal", name), "{}: d = {:e} for x {} y", name, dxy, if x == y { "==" } else { "!=" });
        vals.push(dxy);
    }
    if case.p == 1 {
        ctx.bound("minkowski1-vs-manhattan", (vals[2] - vals[1]).abs(), rel * vals[1])?;
    }
    if case.p == 2 {
        ctx.bound("minkowski2-vs-euclidian", (vals[2] - vals[0]).abs(), rel * vals[0])?;
    }
    Ok(())
}

fn noncollinear(x: &[f64], y: &[f64], z: &[f64]) -> bool {
    // rank of [y-x, z-x] is 2
    let a: Vec<f64> = y.iter().zip(x).map(|(p, q)| p - q).collect();
    let b: Vec<f64> = z.iter().zip(x).map(|(p, q)| p - q).collect();
    let (aa, bb, ab) = (oracle::dot(&a, &a), oracle::dot(&b, &b), oracle::dot(&a, &b));
    aa * bb - ab * ab > 1e-9 * aa * bb && aa > 0.0 && bb > 0.0
}

fn check_lp(case: &LpCase, ctx: &mut Ctx) -> Result<(), Fail> {
    ctx.nontrivial(case.x.len() >= 2 && noncollinear(&case.x, &case.y, &case.z));
    ctx.label(format!("p={}", case.p));
    ctx.label_if(case.f32, "f32");
    ctx.label_if(case.log2_scale > 20, "large-magnitude");
    ctx.label_if(case.log2_scale < -20, "tiny-magnitude");
    ctx.label_if(case.x == case.y, "x==y");
    if case.f32 {
        lp_run::<f32>(case, ctx)
    } else {
        lp_run::<f64>(case, ctx)
    }
}

// ------------------------------------------------------------------ Hamming

#[derive(Clone, Debug, Serialize, Deserialize)]
pub struct HammingCase {
    pub f32: bool,
    pub x: Vec<i32>,
    pub y: Vec<i32>,
    pub z: Vec<i32>,
}

fn strat_hamming(_t: Tier) -> BoxedStrategy<HammingCase> {
    (1usize..=30, 1i32..=4, any::<bool>())
        .prop_flat_map(|(n, k, f32)| (vec(0..=k, n), vec(0..=k, n), vec(0..=k, n), Just(f32)))
        .prop_map(|(x, y, z, f32)| HammingCase { f32, x, y, z })
        .boxed()
}

fn check_hamming(case: &HammingCase, ctx: &mut Ctx) -> Result<(), Fail> {
    let (x, y, z) = (&case.x, &case.y, &case.z);
    let n = x.len() as f64;
    ctx.nontrivial(x.len() >= 2 && x != y && y != z);
    let h = Distances::hamming();
    let d = |a: &Vec<i32>, b: &Vec<i32>| -> Result<f64, Fail> {
        no_panic("hamming", || if case.f32 { <_ as Distance<Vec<i32>, f32>>::distance(&h, a, b) as f64 } else { <_ as Distance<Vec<i32>, f64>>::distance(&h, a, b) })
    };
    let cnt = |a: &Vec<i32>, b: &Vec<i32>| a.iter().zip(b).filter(|(p, q)| p != q).count() as f64;
    let eps = if case.f32 { f32::EPSILON as f64 } else { f64::EPSILON };
    let (dxy, dyx, dyz, dxz, dxx) = (d(x, y)?, d(y, x)?, d(y, z)?, d(x, z)?, d(x, x)?);
    ensure!(dxx == 0.0, "hamming/identity", "d(x,x) = {}", dxx);
    ensure!(dxy == dyx, "hamming/symmetry", "{} vs {}", dxy, dyx);
    ensure!(dxy >= 0.0 && dxy <= 1.0, "hamming/range", "{}", dxy);
    ctx.bound("hamming/closed-form", (dxy - cnt(x, y) / n).abs(), 2.0 * eps)?;
    ensure!(dxz <= dxy + dyz + 4.0 * eps, "hamming/triangle", "{} > {} + {}", dxz, dxy, dyz);
    // float vectors too (f64 elements)
    let fx: Vec<f64> = x.iter().map(|v| *v as f64 * 0.5).collect();
    let fy: Vec<f64> = y.iter().map(|v| *v as f64 * 0.5).collect();
    let df: f64 = no_panic("hamming", || h.distance(&fx, &fy))?;
    ctx.bound("hamming/closed-form-floats", (df - cnt(x, y) / n).abs(), 2.0 * f64::EPSILON)
}

// ------------------------------------------------------------------ Mahalanobis

#[derive(Clone, Debug, Serialize, Deserialize)]
pub struct MahaCase {
    pub f32: bool,
    /// covariance (from_cov) or data matrix (from_data)
    pub m: Mat,
    pub from_data: bool,
    pub identity: bool,
    pub x: Vec<f64>,
    pub y: Vec<f64>,
    pub z: Vec<f64>,
    /// the three points are multiplied by 2^log2_scale (tiny and large magnitudes, nearly coincident points)
    #[serde(default)]
    pub log2_scale: i32,
    /// log10 of the singular-value ratio the case was built with (covariance cond = 10^(2 lc)); absent in
    /// older stored cases, which used 1 for f32 and 2 for f64
    #[serde(default)]
    pub lc: Option<f64>,
}

/// n x (n-1) matrix with orthonormal columns orthogonal to the all-ones vector
fn helmert(n: usize) -> Mat {
    Mat::from_fn(n, n - 1, |i, k| {
        let kk = (k + 1) as f64;
        let s = (kk * (kk + 1.0)).sqrt();
        if i <= k {
            1.0 / s
        } else if i == k + 1 {
            -kk / s
        } else {
            0.0
        }
    })
}

fn strat_maha(_t: Tier) -> BoxedStrategy<MahaCase> {
    (1usize..=8, prop::bool::weighted(0.3), 0u8..4, any::<bool>())
        .prop_flat_map(|(d, f32, kind, wide)| {
            // singular-value ratio; covariance cond = 10^(2 lc) <= 1e4 in both widths (every other f32 case stays at 1e2,
            // where the relative tolerance is still tight)
            let lc = if f32 && !wide { 1.0 } else { 2.0 };
            let m: BoxedStrategy<(Mat, bool, bool)> = match kind {
                0 => Just((Mat::eye(d), false, true)).boxed(),
                1 => (d + 2..=d + 12)
                    .prop_flat_map(move |n| (orth(n - 1), spectrum(d, lc), orth(d), unit_vec(d), pow2(-3, 3)))
                    .prop_map(move |(q, s, v, mu, sc)| {
                        let n = q.r + 1;
                        let yk = q.slice(0, n - 1, 0, d);
                        let xc = helmert(n).mul(&yk).mul(&Mat::diag(&s)).mul(&v.t()).scale(sc);
                        (Mat::from_fn(n, d, |i, j| xc.at(i, j) + mu[j] * 4.0), true, false)
                    })
                    .boxed(),
                _ => (spectrum(d, 2.0 * lc).prop_flat_map(sym_from_eigs), pow2(-6, 6)).prop_map(|(a, s)| (a.scale(s), false, false)).boxed(),
            };
            (m, triple(d), Just(f32), prop_oneof![2 => Just(0i32), 1 => -40i32..=20, 1 => -30i32..=-20], Just(lc))
        })
        .prop_map(|((m, from_data, identity), (x, y, z), f32, k, lc)| MahaCase { f32, m, from_data, identity, x, y, z, log2_scale: if f32 { k.max(-20).min(10) } else { k }, lc: Some(lc) })
        .boxed()
}

fn maha_run<T: RealNumber>(case: &MahaCase, ctx: &mut Ctx) -> Result<(), Fail> {
    let g = |v: &Vec<f64>| -> Vec<f64> { v.iter().map(|a| ft::<T>(tf::<T>(*a))).collect() };
    let sc = 2f64.powi(case.log2_scale);
    let gs = |v: &Vec<f64>| -> Vec<f64> { v.iter().map(|a| ft::<T>(tf::<T>(*a * sc))).collect() };
    let m = Mat { r: case.m.r, c: case.m.c, d: g(&case.m.d) };
    let (x, y, z) = (gs(&case.x), gs(&case.y), gs(&case.z));
    let dm: DenseMatrix<T> = <DenseB as Build<T>>::build(&m);
    let dist: Mahalanobis<T, DenseMatrix<T>> = no_panic("mahalanobis/new", || if case.from_data { Distances::mahalanobis(&dm) } else { Mahalanobis::new_from_covariance(&dm) })?;
    // reference covariance
    let cov = if case.from_data {
        let mu = m.col_means();
        Mat::from_fn(m.c, m.c, |i, j| (0..m.r).map(|k| (m.at(k, i) - mu[i]) * (m.at(k, j) - mu[j])).sum::<f64>() / (m.r - 1) as f64)
    } else {
        m.clone()
    };
    let refd = |a: &[f64], b: &[f64]| -> f64 {
        let zv: Vec<f64> = a.iter().zip(b).map(|(p, q)| p - q).collect();
        let zm = Mat { r: zv.len(), c: 1, d: zv.clone() };
        let w = oracle::solve(&cov, &zm).expect("constructed covariance is non-singular");
        oracle::dot(&zv, &w.d).max(0.0).sqrt()
    };
    let (tx, ty, tz): (Vec<T>, Vec<T>, Vec<T>) = (tvec(&x), tvec(&y), tvec(&z));
    let d = |a: &Vec<T>, b: &Vec<T>| -> Result<f64, Fail> { Ok(ft(no_panic("mahalanobis", || dist.distance(a, b))?)) };
    let (dxy, dyx, dyz, dxz, dxx) = (d(&tx, &ty)?, d(&ty, &tx)?, d(&ty, &tz)?, d(&tx, &tz)?, d(&tx, &tx)?);
    let eps = ft(T::epsilon());
    let cond = 10f64.powf(2.0 * case.lc.unwrap_or(if case.f32 { 1.0 } else { 2.0 }));
    ctx.label_if(case.f32 && cond > 1e3, "f32-cond-1e4");
    let rel = 64.0 * eps * cond * (x.len() as f64 + 2.0) * if case.from_data { m.r as f64 * 8.0 } else { 1.0 };
    ensure!(dxx == 0.0, "mahalanobis/identity", "d(x,x) = {:e}", dxx);
    ensure!(dxy >= 0.0 && dyz >= 0.0 && dxz >= 0.0, "mahalanobis/negative", "negative or NaN distance {:e} {:e} {:e}", dxy, dyz, dxz);
    ctx.bound("mahalanobis/symmetry", (dxy - dyx).abs(), 1e-10 * dxy.max(f64::MIN_POSITIVE))?;
    ensure!((dxy == 0.0) == (x == y), "mahalanobis/zero-iff-equal", "d(x,y) = {:e} for x {} y (x = {:?}, y = {:?})", dxy, if x == y { "==" } else { "!=" }, x, y);
    let exy = refd(&x, &y);
    ctx.bound("mahalanobis/closed-form", (dxy - exy).abs(), rel * exy)?;
    // a cloned metric is the same metric (estimators clone the distance they are configured with)
    let cloned = dist.clone();
    let dc: f64 = ft(no_panic("mahalanobis/clone", || cloned.distance(&tx, &ty))?);
    ensure!(dc.to_bits() == dxy.to_bits(), "mahalanobis/clone-differs", "clone().distance = {:e}, original {:e}", dc, dxy);
    ensure!(dxz <= dxy + dyz + rel * (dxy + dyz + dxz), "mahalanobis/triangle", "d(x,z) = {:e} > {:e} + {:e}", dxz, dxy, dyz);
    if case.identity {
        let e: f64 = ft(Distances::euclidian().distance(&tx, &ty));
        ctx.bound("mahalanobis/identity-cov-vs-euclidian", (dxy - e).abs(), 8.0 * eps * (x.len() as f64 + 2.0) * e)?;
    }
    Ok(())
}

fn check_maha(case: &MahaCase, ctx: &mut Ctx) -> Result<(), Fail> {
    ctx.nontrivial(case.x.len() >= 2 && noncollinear(&case.x, &case.y, &case.z));
    ctx.label(if case.identity { "identity-covariance" } else if case.from_data { "from-data" } else { "from-covariance" });
    ctx.label_if(case.f32, "f32");
    ctx.label_if(case.log2_scale <= -20, "tiny-magnitude");
    if case.f32 {
        maha_run::<f32>(case, ctx)
    } else {
        maha_run::<f64>(case, ctx)
    }
}

// ------------------------------------------------------------------ length mismatch

#[derive(Clone, Debug, Serialize, Deserialize)]
pub struct MismatchCase {
    pub x: Vec<f64>,
    pub y: Vec<f64>,
    pub dim: usize,
}

fn strat_mismatch(_t: Tier) -> BoxedStrategy<MismatchCase> {
    (1usize..=12, 1usize..=12, 1usize..=6)
        .prop_filter("lengths differ", |(a, b, _)| a != b)
        .prop_flat_map(|(a, b, d)| (unit_vec(a), unit_vec(b), Just(d)))
        .prop_map(|(x, y, dim)| MismatchCase { x, y, dim })
        .boxed()
}

fn check_mismatch(case: &MismatchCase, ctx: &mut Ctx) -> Result<(), Fail> {
    ctx.nontrivial(true);
    let (x, y) = (&case.x, &case.y);
    must_panic("euclidian/length-mismatch", || -> f64 { Distances::euclidian().distance(x, y) })?;
    must_panic("manhattan/length-mismatch", || -> f64 { Distances::manhattan().distance(x, y) })?;
    must_panic("minkowski/length-mismatch", || -> f64 { Distances::minkowski(3).distance(x, y) })?;
    must_panic("hamming/length-mismatch", || -> f64 { Distances::hamming().distance(x, y) })?;
    // Mahalanobis: any length different from the covariance dimension
    let cov = DenseMatrix::<f64>::eye_(case.dim);
    let m = Mahalanobis::new_from_covariance(&cov);
    let good = vec![0.5; case.dim];
    if x.len() != case.dim {
        must_panic("mahalanobis/length-mismatch", || m.distance(x, &good))?;
        must_panic("mahalanobis/length-mismatch", || m.distance(&good, x))?;
    }
    Ok(())
}

trait EyeExt {
    fn eye_(n: usize) -> Self;
}
impl EyeExt for DenseMatrix<f64> {
    fn eye_(n: usize) -> Self {
        <DenseMatrix<f64> as smartcore::linalg::BaseMatrix<f64>>::eye(n)
    }
}

pub fn property() -> Property {
    Property {
        id: "C17",
        quick_mult: 100,
        rule: "triples of vectors of length 1..30 (random dyadic, equal, one-coordinate differences, collinear, small integers), scaled by 2^k with k drawn over the whole range in which |d|^p*len stays finite and normal for the type under test (computed per case), p in 1..8; Hamming on integer vectors over alphabets of 2..5 symbols; Mahalanobis from SPD covariances Q diag(l) Q^T (cond <= 1e4 in f64 and f32; half of the f32 cases <= 1e2), the identity, and from constructed full-rank data (centred part = Helmert * orthonormal * diag(s) * V^T). non-trivial = length >= 2 and the three points are not collinear (Hamming: pairwise different); distinct = distinct serialised case",
        assumptions: vec![
            "Hamming distance is the fraction of differing positions (the definition the module documents)".into(),
            "closed-form agreement is relative: 128*eps*(len+4p+4) for the p-norms, 64*eps*cond*(len+2) for Mahalanobis".into(),
            "Minkowski order 0 is outside the domain (p >= 1)".into(),
        ],
        subs: vec![
            sub("lp", (6000, 300000), strat_lp, check_lp),
            sub("hamming", (2000, 100000), strat_hamming, check_hamming),
            sub("mahalanobis", (3000, 100000), strat_maha, check_maha),
            sub("length_mismatch", (500, 10000), strat_mismatch, check_mismatch),
        ],
    }
}
