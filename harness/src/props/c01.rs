//! C01 — LU, QR, Cholesky, SVD: factors multiply back, structure, solves.
use crate::engine::*;
use crate::gen::*;
use crate::matops::*;
use crate::oracle::{orth_defect, Mat};
use proptest::collection::vec;
use proptest::prelude::*;
use serde::{Deserialize, Serialize};
use smartcore::linalg::cholesky::CholeskyDecomposableMatrix;
use smartcore::linalg::lu::LUDecomposableMatrix;
use smartcore::linalg::qr::QRDecomposableMatrix;
use smartcore::linalg::svd::SVDDecomposableMatrix;
use smartcore::linalg::BaseMatrix;
use smartcore::math::num::RealNumber;

/// calibrated constant: residuals are required to stay below C * eps * max(m,n) * norm
pub const C: f64 = 512.0;

#[derive(Clone, Debug, Serialize, Deserialize)]
pub struct DecompCase {
    pub f32: bool,
    pub class: String,
    pub scale: f64,
    pub a: Mat,
    pub b: Mat,
    /// orthonormal basis of the null space (rank-deficient SVD solve only)
    pub null: Option<Mat>,
}

fn logcond(f32: bool) -> f64 {
    if f32 {
        3.0
    } else {
        6.0
    }
}

fn signed_perm(n: usize) -> BoxedStrategy<Mat> {
    (Just((0..n).collect::<Vec<usize>>()).prop_shuffle(), vec(any::<bool>(), n))
        .prop_map(move |(p, s)| Mat::from_fn(n, n, |i, j| if p[i] == j { if s[i] { -1.0 } else { 1.0 } } else { 0.0 }))
        .boxed()
}

/// square non-singular matrix classes
pub fn square_class(n: usize, f32: bool) -> BoxedStrategy<(String, Mat)> {
    let lc = logcond(f32);
    let mut opts: Vec<(u32, BoxedStrategy<(String, Mat)>)> = vec![
        (5, cond_mat(n, n, lc).prop_map(|m| ("dense".to_string(), m)).boxed()),
        (
            1,
            (spectrum(n, lc), vec(any::<bool>(), n))
                .prop_map(|(s, sg)| ("diagonal".to_string(), Mat::diag(&s.iter().zip(&sg).map(|(x, n)| if *n { -x } else { *x }).collect::<Vec<_>>())))
                .boxed(),
        ),
        (1, signed_perm(n).prop_map(|m| ("permutation".to_string(), m)).boxed()),
        (1, orth(n).prop_map(|m| ("orthogonal".to_string(), m)).boxed()),
        (
            1,
            (unit_mat(n, (n / 2).max(1)), unit_pos()).prop_map(move |(b, l)| ("lowrank+ridge".to_string(), b.mul(&b.t()).add(&Mat::eye(n).scale(0.1 + l)))).boxed(),
        ),
        (
            2,
            // integer valued, strictly diagonally dominant, rows permuted (pivoting needed)
            (int_mat(n, n, -9, 9), Just((0..n).collect::<Vec<usize>>()).prop_shuffle(), vec(any::<bool>(), n))
                .prop_map(move |(m, p, sg)| {
                    let mut d = m.clone();
                    for i in 0..n {
                        let s: f64 = (0..n).filter(|j| *j != i).map(|j| m.at(i, j).abs()).sum();
                        d.set(i, i, if sg[i] { -(s + 1.0) } else { s + 1.0 });
                    }
                    ("integer".to_string(), Mat::from_fn(n, n, |i, j| d.at(p[i], j)))
                })
                .boxed(),
        ),
    ];
    if n <= 12 {
        opts.push((
            1,
            (unit_mat(n, n), spectrum(n, 2.0), any::<bool>(), vec(any::<bool>(), n))
                .prop_map(move |(m, s, upper, sg)| {
                    let t = Mat::from_fn(n, n, |i, j| {
                        if i == j {
                            if sg[i] {
                                -s[i]
                            } else {
                                s[i]
                            }
                        } else if (j > i) == upper {
                            m.at(i, j) * 0.01 * s[i.max(j)]
                        } else {
                            0.0
                        }
                    });
                    ("triangular".to_string(), t)
                })
                .boxed(),
        ));
    }
    if n >= 2 {
        // zero leading block with negative alternatives: [[0, -B], [C, D]], B and C non-singular
        let k = n / 2;
        opts.push((
            2,
            (cond_mat(k, k, 1.0), cond_mat(n - k, n - k, 1.0), unit_mat(n - k, k))
                .prop_map(move |(b, c, d)| {
                    let m = Mat::from_fn(n, n, |i, j| {
                        if i < k {
                            if j < n - k {
                                0.0
                            } else {
                                -b.at(i, j - (n - k))
                            }
                        } else if j < n - k {
                            c.at(i - k, j)
                        } else {
                            0.25 * d.at(i - k, j - (n - k))
                        }
                    });
                    ("zero-leading-block".to_string(), m)
                })
                .boxed(),
        ));
    }
    proptest::strategy::Union::new_weighted(opts).boxed()
}

/// tall / wide / square matrices of full rank min(m,n)
pub fn rect_class(m: usize, n: usize, f32: bool) -> BoxedStrategy<(String, Mat)> {
    let lc = logcond(f32);
    let k = m.min(n);
    let mut opts: Vec<(u32, BoxedStrategy<(String, Mat)>)> = vec![
        (5, cond_mat(m, n, lc).prop_map(|a| ("dense".to_string(), a)).boxed()),
        (2, spectrum(k, lc).prop_map(move |s| { let kk = s.len(); (0..kk).map(|i| 10f64.powf(-lc * i as f64 / (kk.max(2) - 1) as f64)).collect::<Vec<f64>>() }).prop_flat_map(move |s| with_singular_values(m, n, s)).prop_map(|a| ("graded".to_string(), a)).boxed()),
    ];
    if m > n {
        // zero rows embedded in a full-column-rank whole (incl. the first rows)
        opts.push((
            2,
            (cond_mat(n, n, 2.0), vec(any::<u16>(), m - n), any::<bool>())
                .prop_map(move |(sq, pos, first)| {
                    // place the n rows of sq at increasing positions among m rows, the rest zero
                    let mut rows: Vec<Option<usize>> = (0..n).map(Some).collect();
                    for (t, p) in pos.iter().enumerate() {
                        let at = if first && t == 0 { 0 } else { idx(*p, rows.len() + 1) };
                        rows.insert(at, None);
                    }
                    ("zero-rows".to_string(), Mat::from_fn(m, n, |i, j| rows[i].map(|r| sq.at(r, j)).unwrap_or(0.0)))
                })
                .boxed(),
        ));
        // integer valued with full column rank by construction: a diagonally dominant n x n block on top of random rows
        opts.push((
            1,
            int_mat(m, n, -9, 9)
                .prop_map(move |i| {
                    let mut a = i.clone();
                    for r in 0..n {
                        let s: f64 = (0..n).filter(|c| *c != r).map(|c| i.at(r, c).abs()).sum();
                        a.set(r, r, if i.at(r, r) < 0.0 { -(s + 1.0) } else { s + 1.0 });
                    }
                    ("integer".to_string(), a)
                })
                .boxed(),
        ));
    }
    if m < n {
        opts.push((
            2,
            (cond_mat(m, m, 2.0), vec(any::<u16>(), n - m))
                .prop_map(move |(sq, pos)| {
                    let mut cols: Vec<Option<usize>> = (0..m).map(Some).collect();
                    for p in pos.iter() {
                        cols.insert(idx(*p, cols.len() + 1), None);
                    }
                    ("zero-columns".to_string(), Mat::from_fn(m, n, |i, j| cols[j].map(|c| sq.at(i, c)).unwrap_or(0.0)))
                })
                .boxed(),
        ));
    }
    proptest::strategy::Union::new_weighted(opts).boxed()
}

fn scale_strategy(f32: bool) -> BoxedStrategy<f64> {
    let _ = f32;
    prop_oneof![2 => Just(1.0), 3 => pow10(-12, 12)].boxed()
}

fn rhs(m: usize) -> BoxedStrategy<Mat> {
    (1usize..=4).prop_flat_map(move |p| unit_mat(m, p)).boxed()
}

fn finish(f32: bool, class: String, scale: f64, a: Mat, b: Mat, in_range: bool, null: Option<Mat>) -> DecompCase {
    let a = a.scale(scale);
    // right-hand sides: random, or in the range of A
    let b = if in_range && b.r == a.r {
        let x = Mat::from_fn(a.c, b.c, |i, j| b.d[(i * b.c + j) % b.d.len()]);
        a.mul(&x)
    } else {
        b.scale(scale)
    };
    DecompCase { f32, class, scale, a, b, null }
}

fn dim(t: Tier) -> std::ops::RangeInclusive<usize> {
    1..=t.pick(24, 40)
}

pub fn strat_square(t: Tier) -> BoxedStrategy<DecompCase> {
    (dim(t), prop::bool::weighted(0.3))
        .prop_flat_map(|(n, f32)| (square_class(n, f32), rhs(n), scale_strategy(f32), any::<bool>()).prop_map(move |((class, a), b, s, ir)| finish(f32, class, s, a, b, ir, None)))
        .boxed()
}

pub fn strat_tall(t: Tier) -> BoxedStrategy<DecompCase> {
    (dim(t), dim(t), prop::bool::weighted(0.3))
        .prop_flat_map(|(x, y, f32)| {
            let (m, n) = (x.max(y), x.min(y));
            (rect_class(m, n, f32), rhs(m), scale_strategy(f32), any::<bool>()).prop_map(move |((class, a), b, s, ir)| finish(f32, class, s, a, b, ir, None))
        })
        .boxed()
}

pub fn strat_any_shape(t: Tier) -> BoxedStrategy<DecompCase> {
    (dim(t), dim(t), prop::bool::weighted(0.3))
        .prop_flat_map(|(m, n, f32)| (rect_class(m, n, f32), rhs(m), scale_strategy(f32), any::<bool>()).prop_map(move |((class, a), b, s, ir)| finish(f32, class, s, a, b, ir, None)))
        .boxed()
}

pub fn strat_spd(t: Tier) -> BoxedStrategy<DecompCase> {
    (dim(t), prop::bool::weighted(0.3))
        .prop_flat_map(|(n, f32)| {
            (spectrum(n, logcond(f32)).prop_flat_map(sym_from_eigs), rhs(n), scale_strategy(f32), any::<bool>()).prop_map(move |(a, b, s, ir)| finish(f32, "spd".into(), s, a, b, ir, None))
        })
        .boxed()
}

pub fn strat_indef(t: Tier) -> BoxedStrategy<DecompCase> {
    let random = (2..=*dim(t).end(), prop::bool::weighted(0.3)).prop_flat_map(|(n, f32)| {
        (spectrum(n, 2.0), vec(any::<bool>(), n), 0usize..n, scale_strategy(f32))
            .prop_flat_map(move |(s, neg, forced, sc)| {
                // eigenvalues in [-1,1]; at least one <= -0.3
                let l: Vec<f64> = s.iter().enumerate().map(|(i, x)| if i == forced { -(0.3 + 0.7 * x) } else if neg[i] { -x } else { *x }).collect();
                sym_from_eigs(l).prop_map(move |a| finish(f32, "indefinite".into(), sc, a, Mat::zeros(n, 1), false, None))
            })
    });
    // integer matrices with exact zero pivots: [[M, 0],[0, -k]] style with a singular leading block
    let integer = (2usize..=6, int_mat(6, 6, -3, 3), 1i32..=5).prop_map(|(n, r, k)| {
        // B B^T has rank <= n-1 when B has a zero column; then append a clearly negative diagonal entry
        let b = Mat::from_fn(n - 1, n - 1, |i, j| if j == 0 { 0.0 } else { r.at(i, j) });
        let g = b.mul(&b.t());
        let a = Mat::from_fn(n, n, |i, j| if i < n - 1 && j < n - 1 { g.at(i, j) } else if i == n - 1 && j == n - 1 { -(k as f64) * (g.max_abs() + 1.0) } else { 0.0 });
        finish(false, "indefinite-integer-zero-pivot".into(), 1.0, a, Mat::zeros(n, 1), false, None)
    });
    prop_oneof![3 => random, 1 => integer].boxed()
}

/// Rank-deficient inputs for the SVD solver.  The property promises the minimum-norm
/// solution for *exactly* rank-deficient A, so two classes are rank-deficient in exact
/// arithmetic by construction (no rounding can lift the rank):
///   * `rank-deficient/dup`: a well-conditioned m x r block B, the other n-r columns being
///     zero or +-2^k multiples of columns of B, columns permuted; exact under any rescaling
///     and under rounding to f32.  null vectors: e_c for a zero column c, f*e_j - e_c for a copy.
///   * `rank-deficient/int`: [B, B*W] with small integers (B = 32*I + noise on top, r <= 4),
///     columns permuted, rescaled by a power of two only; null vectors [W; -I].
/// A third class, `rank-deficient/rounded` (U diag(s,0) V^T evaluated in floating point), is
/// rank-deficient only up to rounding (sigma_{r+1} ~ eps*sigma_1): whether the solver's rank
/// cut-off drops that singular value is not determined by the property, so only the
/// factorisation and the normal equations are checked there (empty null basis).
pub fn strat_rankdef(t: Tier) -> BoxedStrategy<DecompCase> {
    let hi = *dim(t).end();
    let shape = (2..=hi, 2..=hi, prop::bool::weighted(0.2)).prop_flat_map(|(x, y, f32)| {
        let (m, n) = (x.max(y), x.min(y));
        (1..n, Just((m, n, f32)))
    });
    let rounded = shape.clone().prop_flat_map(|(r, (m, n, f32))| {
        (spectrum(r, 2.0), orth(m), orth(n), rhs(m), scale_strategy(f32)).prop_map(move |(s, u, v, b, sc)| {
            let mut sm = Mat::zeros(m, n);
            for i in 0..r {
                sm.set(i, i, s[i]);
            }
            let a = u.mul(&sm).mul(&v.t());
            finish(f32, "rank-deficient/rounded".to_string(), sc, a, b, false, Some(Mat::zeros(n, 0)))
        })
    });
    let dup = shape.clone().prop_flat_map(|(r, (m, n, f32))| {
        (
            cond_mat(m, r, 2.0),
            vec((any::<u16>(), 0usize..=5, any::<bool>()), n - r),
            vec(0u32..=0xffff, n),
            rhs(m),
            scale_strategy(f32),
            any::<bool>(),
        )
            .prop_map(move |(bm, extra, perm_keys, b, sc, ir)| {
                // column order: a permutation of 0..n derived from sort keys
                let mut order: Vec<usize> = (0..n).collect();
                order.sort_by_key(|j| (perm_keys[*j], *j));
                let mut a = Mat::zeros(m, n);
                let mut null = Mat::zeros(n, n - r);
                for j in 0..r {
                    for i in 0..m {
                        a.set(i, order[j], bm.at(i, j));
                    }
                }
                for (e, (sel, k, neg)) in extra.iter().enumerate() {
                    let c = order[r + e];
                    if *k == 5 {
                        null.set(c, e, 1.0); // zero column
                    } else {
                        let j = idx(*sel, r);
                        let f = 2f64.powi(*k as i32 - 2) * if *neg { -1.0 } else { 1.0 };
                        for i in 0..m {
                            a.set(i, c, f * bm.at(i, j));
                        }
                        null.set(order[j], e, f);
                        null.set(c, e, -1.0);
                    }
                }
                finish(f32, "rank-deficient/dup".to_string(), sc, a, b, ir, Some(null))
            })
    });
    let int = shape.prop_flat_map(|(r0, (m, n, f32))| {
        let r = r0.min(4);
        (int_mat(m, r, -4, 4), int_mat(r, n - r, -2, 2), vec(0u32..=0xffff, n), rhs(m), pow2(-30, 30), any::<bool>()).prop_map(
            move |(mut bm, w, perm_keys, b, sc, ir)| {
                for i in 0..r {
                    bm.set(i, i, bm.at(i, i) + 32.0);
                }
                let mut order: Vec<usize> = (0..n).collect();
                order.sort_by_key(|j| (perm_keys[*j], *j));
                let bw = bm.mul(&w);
                let mut a = Mat::zeros(m, n);
                let mut null = Mat::zeros(n, n - r);
                for i in 0..m {
                    for j in 0..r {
                        a.set(i, order[j], bm.at(i, j));
                    }
                    for e in 0..n - r {
                        a.set(i, order[r + e], bw.at(i, e));
                    }
                }
                for e in 0..n - r {
                    for j in 0..r {
                        null.set(order[j], e, w.at(j, e));
                    }
                    null.set(order[r + e], e, -1.0);
                }
                finish(f32, "rank-deficient/int".to_string(), sc, a, b, ir, Some(null))
            },
        )
    });
    prop_oneof![2 => rounded, 3 => dup, 2 => int].boxed()
}

pub fn prep(case: &DecompCase) -> (Mat, Mat, f64) {
    if case.f32 {
        (to_f32_grid(&case.a), to_f32_grid(&case.b), f32::EPSILON as f64)
    } else {
        (case.a.clone(), case.b.clone(), f64::EPSILON)
    }
}

fn common_labels(case: &DecompCase, a: &Mat, ctx: &mut Ctx) {
    ctx.label(format!("class:{}", case.class));
    ctx.label_if(case.f32, "f32");
    ctx.label_if(case.scale != 1.0, "rescaled");
    ctx.label_if(case.scale <= 1e-6, "scale<=1e-6");
    ctx.label_if(case.scale >= 1e6, "scale>=1e6");
    ctx.label(format!("shape:{}", super::c03::shape_label(a)));
    let n = a.r.min(a.c);
    let multiple_of_identity = a.r == a.c && (0..a.r).all(|i| (0..a.c).all(|j| if i == j { a.at(i, j) == a.at(0, 0) } else { a.at(i, j) == 0.0 }));
    ctx.nontrivial(n >= 2 && !multiple_of_identity);
}

fn lower_exact(l: &Mat, unit: bool) -> bool {
    (0..l.r).all(|i| (0..l.c).all(|j| if j > i { l.at(i, j) == 0.0 } else if unit && i == j { l.at(i, j) == 1.0 } else { true }))
}
fn upper_exact(u: &Mat) -> bool {
    (0..u.r).all(|i| (0..u.c).all(|j| j >= i || u.at(i, j) == 0.0))
}

macro_rules! dispatch {
    ($case:expr, $f:ident, $($arg:expr),*) => {
        if $case.f32 { $f::<f32, DenseB>($($arg),*) } else { $f::<f64, DenseB>($($arg),*) }
    };
}

// ------------------------------------------------------------------ LU

pub fn lu_run<T: RealNumber, B: Build<T>>(a: &Mat, b: &Mat, eps: f64, ctx: &mut Ctx) -> Result<(), Fail> {
    let n = a.r;
    let ma = <B as Build<T>>::build(a);
    let lu = match no_panic("lu", || ma.lu())? {
        Ok(x) => x,
        Err(e) => return fail("lu/err", format!("lu() failed on a non-singular matrix: {}", e)),
    };
    let (l, u, p) = no_panic("lu/accessors", || (to_mat(&lu.L()), to_mat(&lu.U()), to_mat(&lu.pivot())))?;
    ensure!(lower_exact(&l, true), "lu/structure", "L is not unit lower triangular: {:?}", l);
    ensure!(upper_exact(&u), "lu/structure", "U is not upper triangular: {:?}", u);
    let perm_ok = p.d.iter().all(|x| *x == 0.0 || *x == 1.0) && (0..n).all(|i| p.row(i).iter().sum::<f64>() == 1.0 && p.col(i).iter().sum::<f64>() == 1.0);
    ensure!(perm_ok, "lu/structure", "P is not a permutation matrix: {:?}", p);
    let an = a.fro();
    let scale = an.max(l.abs().mul(&u.abs()).fro());
    ctx.bound("lu/PA-LU", p.mul(a).sub(&l.mul(&u)).fro(), C * eps * n as f64 * scale)?;
    // inverse
    let inv = match no_panic("lu/inverse", || lu.inverse())? {
        Ok(x) => to_mat(&x),
        Err(e) => return fail("lu/err", format!("inverse() failed: {}", e)),
    };
    ctx.bound("lu/inverse", a.mul(&inv).sub(&Mat::eye(n)).fro(), C * eps * n as f64 * (an * inv.fro() + (n as f64).sqrt()))?;
    // solve
    let mb = <B as Build<T>>::build(b);
    let x = match no_panic("lu_solve_mut", || <B as Build<T>>::build(a).lu_solve_mut(mb))? {
        Ok(x) => to_mat(&x),
        Err(e) => return fail("lu/err", format!("lu_solve_mut failed: {}", e)),
    };
    ensure!((x.r, x.c) == (n, b.c), "lu/solve-shape", "solution shape {}x{}", x.r, x.c);
    ctx.bound("lu/solve", a.mul(&x).sub(b).fro(), C * eps * n as f64 * (an * x.fro() + b.fro()))
}

fn check_lu(case: &DecompCase, ctx: &mut Ctx) -> Result<(), Fail> {
    let (a, b, eps) = prep(case);
    common_labels(case, &a, ctx);
    dispatch!(case, lu_run, &a, &b, eps, ctx)
}

// ------------------------------------------------------------------ QR

pub fn qr_run<T: RealNumber, B: Build<T>>(a: &Mat, b: &Mat, eps: f64, ctx: &mut Ctx) -> Result<(), Fail> {
    let (m, n) = (a.r, a.c);
    let ma = <B as Build<T>>::build(a);
    let qr = match no_panic("qr", || ma.qr())? {
        Ok(x) => x,
        Err(e) => return fail("qr/err", format!("qr() failed: {}", e)),
    };
    let (q, r) = no_panic("qr/accessors", || (to_mat(&qr.Q()), to_mat(&qr.R())))?;
    ensure!((q.r, q.c) == (m, n) && (r.r, r.c) == (n, n), "qr/shape", "Q {}x{} R {}x{}", q.r, q.c, r.r, r.c);
    ensure!(upper_exact(&r), "qr/structure", "R is not upper triangular: {:?}", r);
    let an = a.fro();
    let dimf = m as f64;
    ctx.bound("qr/A-QR", a.sub(&q.mul(&r)).fro(), C * eps * dimf * an)?;
    ctx.bound("qr/QtQ-I", orth_defect(&q, n), C * eps * dimf)?;
    let mb = <B as Build<T>>::build(b);
    let xs = match no_panic("qr_solve_mut", || <B as Build<T>>::build(a).qr_solve_mut(mb))? {
        Ok(x) => to_mat(&x),
        Err(e) => return fail("qr/err", format!("qr_solve_mut failed: {}", e)),
    };
    ensure!(xs.r >= n && xs.c == b.c, "qr/solve-shape", "solution shape {}x{}", xs.r, xs.c);
    let x = xs.slice(0, n, 0, b.c);
    let res = a.mul(&x).sub(b);
    if m == n {
        ctx.bound("qr/solve", res.fro(), C * eps * dimf * (an * x.fro() + b.fro()))
    } else {
        ctx.bound("qr/lstsq-normal-eq", a.t().mul(&res).fro(), C * eps * dimf * an * (an * x.fro() + b.fro()))
    }
}

fn check_qr(case: &DecompCase, ctx: &mut Ctx) -> Result<(), Fail> {
    let (a, b, eps) = prep(case);
    common_labels(case, &a, ctx);
    dispatch!(case, qr_run, &a, &b, eps, ctx)
}

// ------------------------------------------------------------------ Cholesky

pub fn chol_run<T: RealNumber, B: Build<T>>(a: &Mat, b: &Mat, eps: f64, ctx: &mut Ctx) -> Result<(), Fail> {
    let n = a.r;
    let ma = <B as Build<T>>::build(a);
    let ch = match no_panic("cholesky", || ma.cholesky())? {
        Ok(x) => x,
        Err(e) => return fail("cholesky/err", format!("cholesky() rejected a positive-definite matrix: {}", e)),
    };
    let (l, u) = no_panic("cholesky/accessors", || (to_mat(&ch.L()), to_mat(&ch.U())))?;
    ensure!(lower_exact(&l, false), "cholesky/structure", "L is not lower triangular");
    ensure!(u == l.t(), "cholesky/structure", "U is not the transpose of L");
    let an = a.fro();
    ctx.bound("cholesky/A-LLt", a.sub(&l.mul(&l.t())).fro(), C * eps * n as f64 * an)?;
    let mb = <B as Build<T>>::build(b);
    let x = match no_panic("cholesky_solve_mut", || <B as Build<T>>::build(a).cholesky_solve_mut(mb))? {
        Ok(x) => to_mat(&x),
        Err(e) => return fail("cholesky/err", format!("cholesky_solve_mut failed: {}", e)),
    };
    ctx.bound("cholesky/solve", a.mul(&x).sub(b).fro(), C * eps * n as f64 * (an * x.fro() + b.fro()))
}

fn check_chol(case: &DecompCase, ctx: &mut Ctx) -> Result<(), Fail> {
    let (a, b, eps) = prep(case);
    common_labels(case, &a, ctx);
    dispatch!(case, chol_run, &a, &b, eps, ctx)
}

pub fn indef_run<T: RealNumber, B: Build<T>>(a: &Mat) -> Result<(), Fail> {
    let ma = <B as Build<T>>::build(a);
    match no_panic("cholesky-indefinite", || ma.cholesky().map(|c| to_mat(&c.L())))? {
        Err(_) => Ok(()),
        Ok(l) => fail(
            if l.all_finite() { "cholesky/indefinite-accepted" } else { "cholesky/indefinite-accepted-nan" },
            format!("cholesky() returned factors for a matrix with a clearly negative eigenvalue; A = {:?}, L = {:?}", a, l),
        ),
    }
}

fn check_indef(case: &DecompCase, ctx: &mut Ctx) -> Result<(), Fail> {
    let (a, _, _) = prep(case);
    common_labels(case, &a, ctx);
    dispatch!(case, indef_run, &a)
}

// ------------------------------------------------------------------ SVD

pub fn svd_run<T: RealNumber, B: Build<T>>(a: &Mat, b: &Mat, null: &Option<Mat>, eps: f64, ctx: &mut Ctx) -> Result<(), Fail> {
    let (m, n) = (a.r, a.c);
    let k = m.min(n);
    let dimf = m.max(n) as f64;
    let ma = <B as Build<T>>::build(a);
    let svd = match no_panic("svd", || ma.svd())? {
        Ok(x) => x,
        Err(e) => return fail("svd/err", format!("svd() failed: {}", e)),
    };
    let (u, v, s, sm) = no_panic("svd/accessors", || (to_mat(&svd.U), to_mat(&svd.V), fvec(&svd.s), to_mat(&svd.S())))?;
    ensure!(u.r == m && v.r == n && v.c == n && u.c == s.len(), "svd/shape", "U {}x{} V {}x{} s {}", u.r, u.c, v.r, v.c, s.len());
    ensure!(s.iter().all(|x| *x >= 0.0), "svd/s-negative", "negative singular value in {:?}", s);
    ensure!(s.windows(2).all(|w| w[0] >= w[1]), "svd/s-order", "singular values not non-increasing: {:?}", s);
    ensure!((sm.r, sm.c) == (u.c, v.r), "svd/S-shape", "S() is {}x{}", sm.r, sm.c);
    for i in 0..sm.r {
        for j in 0..sm.c {
            ensure!(sm.at(i, j) == if i == j { s[i] } else { 0.0 }, "svd/S-diag", "S() is not diag(s)");
        }
    }
    let an = a.fro();
    let us = Mat::from_fn(u.r, u.c, |i, j| u.at(i, j) * s[j]);
    ctx.bound("svd/A-USVt", a.sub(&us.mul(&v.t())).fro(), C * eps * dimf * an)?;
    ctx.bound("svd/VtV-I", orth_defect(&v, n), C * eps * dimf)?;
    if null.is_none() {
        ctx.bound("svd/UtU-I", orth_defect(&u, k), C * eps * dimf)?;
    }
    if m < n {
        return Ok(()); // solve for wide systems is outside the API's reach (see assumptions)
    }
    let mb = <B as Build<T>>::build(b);
    let xs = match no_panic("svd_solve", || ma.svd_solve(mb))? {
        Ok(x) => to_mat(&x),
        Err(e) => return fail("svd/err", format!("svd_solve failed: {}", e)),
    };
    let x = xs.slice(0, n, 0, b.c);
    let res = a.mul(&x).sub(b);
    if m == n && null.is_none() {
        ctx.bound("svd/solve", res.fro(), C * eps * dimf * (an * x.fro() + b.fro()))?;
    } else {
        ctx.bound("svd/lstsq-normal-eq", a.t().mul(&res).fro(), C * eps * dimf * an * (an * x.fro() + b.fro()))?;
    }
    // the in-place variant agrees
    let xs2 = match no_panic("svd_solve_mut", || <B as Build<T>>::build(a).svd_solve_mut(<B as Build<T>>::build(b)))? {
        Ok(x) => to_mat(&x),
        Err(e) => return fail("svd/err", format!("svd_solve_mut failed: {}", e)),
    };
    ensure!(xs2.slice(0, n, 0, b.c) == x, "svd/solve-mut-differs", "svd_solve and svd_solve_mut disagree");
    if let Some(nb) = null {
        // minimum norm: no component in the null space of A.  The columns of `nb` span the null
        // space exactly but need not be orthonormal (smallest singular value >= 1), so the
        // defect N^T x is measured relative to |N|.
        if nb.c > 0 {
            ctx.label("min-norm-asserted");
            ctx.bound("svd/min-norm", nb.t().mul(&x).fro(), C * eps * dimf * 16.0 * nb.fro() * (x.fro() + b.fro() / an))?;
        }
    }
    Ok(())
}

fn check_svd(case: &DecompCase, ctx: &mut Ctx) -> Result<(), Fail> {
    let (a, b, eps) = prep(case);
    common_labels(case, &a, ctx);
    dispatch!(case, svd_run, &a, &b, &case.null, eps, ctx)
}

pub fn property() -> Property {
    Property {
        id: "C01",
        quick_mult: 40,
        rule: "matrices are constructed, not filtered: U diag(s) V^T with Householder-built orthogonal factors and a chosen spectrum (cond <= 1e6, f32: 1e3), diagonal, triangular, signed permutation, orthogonal, low-rank+ridge, integer diagonally dominant with permuted rows, zero leading block with negative alternatives, zero rows/columns inside a full-rank whole, graded, Q diag(l) Q^T (SPD / indefinite), exactly rank-deficient with known null space; each optionally rescaled by 10^[-12,12]; right-hand sides with 1..4 columns, random or in range(A). non-trivial = min(m,n) >= 2 and A is not a multiple of the identity; distinct = distinct serialised case",
        assumptions: vec![
            format!("residual bounds are C*eps*max(m,n)*norm with C = {} (calibrated: the unchanged algorithms stay below 4 in these units at unit scale)", C),
            "SVD solve for wide A (m < n) is not exercised: the API writes an n-row answer into the m-row right-hand side it is given".into(),
            "the QR / SVD solvers return a matrix with m rows whose first n rows are the solution (what LinearRegression::fit slices)".into(),
            "for wide A only the first m columns of U are required to be orthonormal; for rank-deficient A orthonormality of U is not asserted".into(),
            "LU growth-factor pathologies are not generated".into(),
        ],
        subs: vec![
            sub("lu", (3000, 80000), strat_square, check_lu),
            sub("qr", (3000, 80000), strat_tall, check_qr),
            sub("cholesky", (2000, 60000), strat_spd, check_chol),
            sub("cholesky_indefinite", (1500, 40000), strat_indef, check_indef),
            sub("svd", (3000, 80000), strat_any_shape, check_svd),
            sub("svd_rank_deficient", (1500, 40000), strat_rankdef, check_svd),
        ],
    }
}
