//! C13 — DBSCAN labels satisfy the definition of density-based clusters.
use super::c04::{point_set, Metric, Pts};
use crate::engine::*;
use crate::gen::*;
use proptest::collection::vec;
use proptest::prelude::*;
use serde::{Deserialize, Serialize};
use smartcore::algorithm::neighbour::KNNAlgorithmName;
use smartcore::cluster::dbscan::{DBSCANParameters, DBSCAN};
use smartcore::linalg::naive::dense_matrix::DenseMatrix;
use crate::matops::{ft, tf};
use smartcore::math::distance::{Distance, Distances};
use smartcore::math::num::RealNumber;

#[derive(Clone, Debug, Serialize, Deserialize)]
pub struct DbscanCase {
    pub class: String,
    pub metric: Metric,
    pub data: Pts,
    pub eps: f64,
    pub min_samples: usize,
    pub queries: Pts,
}

fn dist_of(m: Metric, a: &[f64], b: &[f64]) -> f64 {
    match m {
        Metric::Manhattan => a.iter().zip(b).map(|(x, y)| (x - y).abs()).sum(),
        _ => a.iter().zip(b).map(|(x, y)| (x - y) * (x - y)).sum::<f64>().sqrt(),
    }
}

fn blobs_and_chains(nmax: usize) -> BoxedStrategy<(String, Pts)> {
    prop_oneof![
        // dense 2x2 lattice squares far apart, each with satellite points at distance exactly 1 from a corner
        (2usize..=4, vec((0u8..4, any::<bool>()), 0..8), any::<bool>()).prop_map(|(nsq, sats, shuffle)| {
            let mut pts: Pts = vec![];
            for s in 0..nsq {
                let ox = 10.0 * s as f64;
                for (dx, dy) in [(0.0, 0.0), (1.0, 0.0), (0.0, 1.0), (1.0, 1.0)] {
                    pts.push(vec![ox + dx, dy]);
                }
            }
            for (i, (corner, up)) in sats.iter().enumerate() {
                let ox = 10.0 * (i % nsq) as f64;
                let (cx, cy) = [(0.0, 0.0), (1.0, 0.0), (0.0, 1.0), (1.0, 1.0)][*corner as usize];
                // step away from the square
                let (sx, sy) = if *up { (0.0, if cy > 0.5 { 1.0 } else { -1.0 }) } else { (if cx > 0.5 { 1.0 } else { -1.0 }, 0.0) };
                pts.push(vec![ox + cx + sx, cy + sy]);
            }
            if shuffle {
                pts.reverse();
            }
            ("squares-with-satellites".to_string(), pts)
        }),
        // chain: points at equal spacing along a direction, with gaps
        (2usize..=nmax.min(40), 1usize..=3, vec(1i32..=3, 40)).prop_map(|(n, d, gaps)| {
            let mut t = 0;
            let pts = (0..n)
                .map(|i| {
                    t += gaps[i % gaps.len()];
                    (0..d).map(|j| if j == 0 { t as f64 } else { 0.0 }).collect()
                })
                .collect();
            ("chain".to_string(), pts)
        }),
        // blobs: a few centres with small offsets
        (2usize..=nmax, 1usize..=4, vec(vec(small_int(-6, 6), 4), 4), vec((any::<u16>(), vec(unit(), 4)), nmax)).prop_map(|(n, d, centres, offs)| {
            let pts = (0..n).map(|i| (0..d).map(|j| centres[idx(offs[i].0, 4)][j] + offs[i].1[j]).collect()).collect();
            ("blobs".to_string(), pts)
        }),
    ]
    .boxed()
}

fn strat_dbscan(t: Tier) -> BoxedStrategy<DbscanCase> {
    let nmax = t.pick(100, 150);
    (prop_oneof![3 => point_set(nmax), 2 => blobs_and_chains(nmax)], prop_oneof![3 => Just(Metric::Euclidian), 1 => Just(Metric::Manhattan)], prop_oneof![4 => 2usize..=4, 1 => Just(1usize), 1 => 5usize..=8], any::<u16>(), any::<u16>(), 0u8..14)
        .prop_flat_map(|((class, data), metric, min_samples, s1, s2, mode)| {
            let data: Pts = data.into_iter().map(|p| p.into_iter().take(4).collect()).collect();
            let n = data.len();
            let d = data[0].len();
            // realised pairwise distances
            let mut ds: Vec<f64> = vec![];
            for i in 0..n.min(40) {
                for j in 0..n.min(40) {
                    let v = dist_of(metric, &data[i], &data[j]);
                    if v > 0.0 {
                        ds.push(v);
                    }
                }
            }
            ds.sort_by(|a, b| a.partial_cmp(b).unwrap());
            ds.dedup();
            let eps = if ds.is_empty() {
                1.0
            } else {
                // lower quantiles are the interesting ones for clustering
                let pick = |s: u16| ds[idx(s, ds.len().min(1 + ds.len() / 3).max(1))];
                match mode {
                    0 | 1 | 2 => pick(s1),                     // exactly a realised distance (boundary)
                    3 | 4 => 0.5 * (pick(s1) + pick(s2)),      // between two realised distances
                    5 => ds[0] * 0.5,                          // all noise / singletons
                    6 => ds[ds.len() - 1] * 2.0,               // one cluster
                    8..=11 => ds[0],                           // the smallest realised distance
                    12 | 13 => ds[1.min(ds.len() - 1)],        // the second smallest
                    _ => ds[idx(s1, ds.len())],                // anywhere
                }
            };
            let fresh = if class.contains("lattice") || class == "chain" { vec(vec(small_int(-1, 7), d), 3).boxed() } else { vec(unit_vec(d).prop_map(|v| v.iter().map(|x| x * 4.0).collect::<Vec<f64>>()), 3).boxed() };
            (Just((class, data, metric, eps, min_samples)), fresh, vec(any::<u16>(), 2)).prop_map(move |((class, data, metric, eps, min_samples), fresh, insel)| {
                let mut queries = fresh;
                for s in insel {
                    queries.push(data[idx(s, n)].clone());
                }
                // a far-away query with no neighbours at all
                queries.push(data[0].iter().map(|x| x + 1e6).collect());
                DbscanCase { class, metric, data, eps, min_samples, queries }
            })
        })
        .boxed()
}

fn enum_dbscan(_t: Tier) -> Box<dyn Iterator<Item = DbscanCase>> {
    let line: Pts = (0..7).map(|i| vec![i as f64]).collect();
    let grid: Pts = (0..9).map(|i| vec![(i / 3) as f64, (i % 3) as f64]).collect();
    let mut cases = vec![];
    for (name, base) in [("exhaustive-line", line), ("exhaustive-grid", grid)] {
        let nb = base.len();
        for mask in 1u32..(1 << nb) {
            if mask.count_ones() > 7 {
                continue;
            }
            let mut data: Pts = (0..nb).filter(|i| mask & (1 << i) != 0).map(|i| base[i].clone()).collect();
            if mask % 3 == 1 {
                data.reverse();
            }
            for eps in [1.0, 2f64.sqrt(), 2.0] {
                for ms in 1..=4 {
                    cases.push(DbscanCase { class: name.to_string(), metric: Metric::Euclidian, data: data.clone(), eps, min_samples: ms, queries: base.clone() });
                }
            }
        }
    }
    Box::new(cases.into_iter())
}

struct Fitted {
    labels: Vec<i64>,
    num_classes: usize,
    predictions: Vec<f64>,
}

fn fit_with<T: RealNumber + serde::Serialize, D: Distance<Vec<T>, T> + serde::Serialize>(case: &DbscanCase, data: &[Vec<T>], queries: &[Vec<T>], eps: T, dist: D, cover: bool) -> Result<Result<Fitted, String>, String> {
    let x = DenseMatrix::from_2d_vec(&data.to_vec());
    let q = DenseMatrix::from_2d_vec(&queries.to_vec());
    catch(|| {
        let alg = if cover { KNNAlgorithmName::CoverTree } else { KNNAlgorithmName::LinearSearch };
        // builder calls in two orders (a setter that rebuilds from the defaults would lose earlier settings)
        let params = if data.len() % 2 == 0 { DBSCANParameters::default().with_eps(eps).with_min_samples(case.min_samples).with_algorithm(alg).with_distance(dist.clone()) } else { DBSCANParameters::default().with_distance(dist.clone()).with_algorithm(alg).with_min_samples(case.min_samples).with_eps(eps) };
        // inherent entry points, or (every other case) the generic traits of smartcore::api
        let via_trait = (data.len() / 2) % 2 == 1;
        let m: DBSCAN<T, D> = if via_trait { unsup_fit(&x, params) } else { DBSCAN::fit(&x, params) }.map_err(|e| format!("fit: {}", e))?;
        let v = serde_json::to_value(&m).map_err(|e| format!("serialise: {}", e))?;
        let labels: Vec<i64> = v["cluster_labels"].as_array().ok_or("no cluster_labels")?.iter().map(|x| x.as_i64().unwrap_or(i64::MIN)).collect();
        let num_classes = v["num_classes"].as_u64().ok_or("no num_classes")? as usize;
        let pr: Vec<T> = if via_trait { tr_predict(&m, &q) } else { m.predict(&q) }.map_err(|e| format!("predict: {}", e))?;
        let predictions: Vec<f64> = pr.iter().map(|v| ft(*v)).collect();
        Ok(Fitted { labels, num_classes, predictions })
    })
}

fn find(uf: &mut Vec<usize>, i: usize) -> usize {
    let mut r = i;
    while uf[r] != r {
        r = uf[r];
    }
    let mut c = i;
    while uf[c] != r {
        let nx = uf[c];
        uf[c] = r;
        c = nx;
    }
    r
}

/// `pfx` = "dbscan" for f64 and "dbscan-f32" for the single-precision instantiation. In f32 the points are the
/// generated ones rounded to f32 and eps is the realised f32 distance closest to the generated eps, so that
/// "eps exactly equal to a distance" survives the change of precision; the reference neighbourhoods use the
/// library's own distance in the same precision.
fn dbscan_with<T: RealNumber + serde::Serialize, D: Distance<Vec<T>, T> + serde::Serialize>(case: &DbscanCase, dist: D, ctx: &mut Ctx, pfx: &str) -> Result<(), Fail> {
    let n = case.data.len();
    let conv = |p: &Pts| -> Vec<Vec<T>> { p.iter().map(|r| r.iter().map(|x| tf::<T>(*x)).collect()).collect() };
    let data: Vec<Vec<T>> = conv(&case.data);
    let queries: Vec<Vec<T>> = conv(&case.queries);
    let mut eps: T = tf::<T>(case.eps);
    if pfx != "dbscan" {
        let mut best = f64::INFINITY;
        for i in 0..n {
            for j in 0..i {
                let d = dist.distance(&data[i], &data[j]);
                if (ft(d) - case.eps).abs() < best && d > T::zero() {
                    best = (ft(d) - case.eps).abs();
                    if best <= 1e-6 * case.eps.abs() {
                        eps = d;
                    }
                }
            }
        }
    }
    if !(eps > T::zero()) {
        return Ok(());
    }
    // textbook definition by brute force
    let nb: Vec<Vec<usize>> = (0..n).map(|i| (0..n).filter(|j| dist.distance(&data[i], &data[*j]) <= eps).collect()).collect();
    let core: Vec<bool> = nb.iter().map(|v| v.len() >= case.min_samples).collect();
    let mut uf: Vec<usize> = (0..n).collect();
    for i in 0..n {
        if core[i] {
            for &j in &nb[i] {
                if core[j] {
                    let (a, b) = (find(&mut uf, i), find(&mut uf, j));
                    uf[a] = b;
                }
            }
        }
    }
    let mut roots: Vec<usize> = (0..n).filter(|i| core[*i]).map(|i| find(&mut uf, i)).collect();
    roots.sort();
    roots.dedup();
    let nclusters = roots.len();
    let border: Vec<usize> = (0..n).filter(|i| !core[*i] && nb[*i].iter().any(|j| core[*j])).collect();
    let noise: Vec<usize> = (0..n).filter(|i| !core[*i] && !nb[*i].iter().any(|j| core[*j])).collect();
    // a border point that the scan reaches before any point of the cluster(s) it belongs to is first marked noise
    let provisional = border.iter().any(|&i| {
        nb[i].iter().filter(|j| core[**j]).all(|&j| {
            let r = find(&mut uf, j);
            (0..n).filter(|c| core[*c] && find(&mut uf, *c) == r).min().unwrap() > i
        })
    });
    ctx.label_if(provisional, "noise-then-border");
    ctx.nontrivial((!border.is_empty() && nclusters >= 2) || provisional);
    ctx.label_if(!border.is_empty(), "has-border");
    ctx.label_if(nclusters == 0, "all-noise");
    ctx.label_if(nclusters == 1 && noise.is_empty(), "one-cluster");
    ctx.label_if(nclusters >= 2, ">=2-clusters");
    ctx.label_if(n == 1, "single-point");
    let mut results = vec![];
    for cover in [true, false] {
        let tag = format!("{}/{}", pfx, if cover { "cover_tree" } else { "linear" });
        let tag = tag.as_str();
        let f = match fit_with(case, &data, &queries, eps, dist.clone(), cover) {
            Err(p) => return fail(format!("{}/panic", tag), format!("n={} eps={} min_samples={}: panicked: {}", n, ft(eps), case.min_samples, p)),
            Ok(Err(e)) => return fail(format!("{}/err", tag), format!("valid input rejected: {}", e)),
            Ok(Ok(f)) => f,
        };
        let y = &f.labels;
        let describe = || format!("data {:?} eps {:e} min_samples {} labels {:?}", case.data, ft(eps), case.min_samples, y);
        ensure!(y.len() == n, format!("{}/len", tag), "{} labels for {} points", y.len(), n);
        ensure!(f.num_classes == nclusters, format!("{}/num-classes", tag), "num_classes = {}, the definition gives {} clusters; {}", f.num_classes, nclusters, describe());
        // labels are exactly 0..c-1 (and -1)
        let mut used: Vec<i64> = y.iter().cloned().filter(|l| *l >= 0).collect();
        used.sort();
        used.dedup();
        ensure!(y.iter().all(|l| *l >= -1) && used == (0..nclusters as i64).collect::<Vec<i64>>(), format!("{}/label-range", tag), "labels are not exactly 0..{}: {}", nclusters, describe());
        for i in 0..n {
            if core[i] {
                ensure!(y[i] >= 0, format!("{}/core-unlabelled", tag), "core point {} is labelled {}; {}", i, y[i], describe());
                for &j in &nb[i] {
                    if core[j] {
                        ensure!(y[i] == y[j], format!("{}/connected-cores-differ", tag), "core points {} and {} are within eps but labelled {} and {}; {}", i, j, y[i], y[j], describe());
                    }
                }
            }
        }
        // cores with equal label must be density-connected
        for i in 0..n {
            for j in 0..i {
                if core[i] && core[j] && y[i] == y[j] {
                    ensure!(find(&mut uf, i) == find(&mut uf, j), format!("{}/unconnected-cores-merged", tag), "core points {} and {} share label {} but are not density-connected; {}", i, j, y[i], describe());
                }
            }
        }
        for &i in &border {
            let ok = nb[i].iter().any(|j| core[*j] && y[*j] == y[i]);
            ensure!(ok, format!("{}/border-label", tag), "border point {} is labelled {} which is not the label of any core point within eps; {}", i, y[i], describe());
        }
        for &i in &noise {
            ensure!(y[i] == -1, format!("{}/noise-labelled", tag), "point {} has no core point within eps but is labelled {}; {}", i, y[i], describe());
        }
        // predict: plurality among the training points within eps
        for (qi, q) in queries.iter().enumerate() {
            let mut votes = vec![0usize; nclusters + 1];
            let mut any = false;
            for j in 0..n {
                if dist.distance(q, &data[j]) <= eps {
                    any = true;
                    if y[j] < 0 {
                        votes[nclusters] += 1;
                    } else {
                        votes[y[j] as usize] += 1;
                    }
                }
            }
            let got = f.predictions[qi];
            if !any {
                ensure!(got == -1.0, format!("{}/predict-no-neighbours", tag), "query {:?} has no training point within eps = {:e} but is assigned cluster {}", case.queries[qi], ft(eps), got);
            } else {
                let mx = *votes.iter().max().unwrap();
                let b = if got == -1.0 { nclusters } else { got as usize };
                ensure!(got == -1.0 || (got >= 0.0 && got.fract() == 0.0 && (got as usize) < nclusters), format!("{}/predict-range", tag), "predicted label {}", got);
                ensure!(votes[b] == mx, format!("{}/predict-plurality", tag), "query {:?}: predicted {} but the votes within eps are {:?} (last bucket = noise)", case.queries[qi], got, votes);
            }
        }
        results.push(f);
    }
    // backend independence: core labels up to renaming, identical noise sets
    let (a, b) = (&results[0].labels, &results[1].labels);
    for i in 0..n {
        ensure!((a[i] == -1) == (b[i] == -1), format!("{}/backends/noise-set", pfx), "point {} is noise with one backend only: cover tree {:?}, linear {:?}", i, a, b);
        for j in 0..i {
            if core[i] && core[j] {
                ensure!((a[i] == a[j]) == (b[i] == b[j]), format!("{}/backends/core-partition", pfx), "core points {} {} grouped differently: cover tree {:?}, linear {:?}", i, j, a, b);
            }
        }
    }
    Ok(())
}

pub fn check_dbscan(case: &DbscanCase, ctx: &mut Ctx) -> Result<(), Fail> {
    ctx.label(format!("class:{}", case.class));
    ctx.label(format!("metric:{:?}", case.metric));
    match case.metric {
        Metric::Manhattan => dbscan_with::<f64, _>(case, Distances::manhattan(), ctx, "dbscan"),
        _ => dbscan_with::<f64, _>(case, Distances::euclidian(), ctx, "dbscan"),
    }
}

/// The same check on DBSCAN<f32>. Every other case is multiplied by 0.1 first, so that lattice coordinates
/// are not exactly representable and equal distances arise from rounded operands.
pub fn check_dbscan_f32(case: &DbscanCase, ctx: &mut Ctx) -> Result<(), Fail> {
    ctx.label(format!("class:{}", case.class));
    ctx.label(format!("metric:{:?}", case.metric));
    let tenth = case.data.len() % 2 == 1;
    ctx.label_if(tenth, "scaled-by-0.1");
    let sc = |p: &Pts| -> Pts { p.iter().map(|r| r.iter().map(|x| if tenth { x * 0.1 } else { *x }).collect()).collect() };
    let c = DbscanCase { class: case.class.clone(), metric: case.metric, data: sc(&case.data), eps: if tenth { case.eps * 0.1 } else { case.eps }, min_samples: case.min_samples, queries: sc(&case.queries) };
    match c.metric {
        Metric::Manhattan => dbscan_with::<f32, _>(&c, Distances::manhattan(), ctx, "dbscan-f32"),
        _ => dbscan_with::<f32, _>(&c, Distances::euclidian(), ctx, "dbscan-f32"),
    }
}

#[derive(Clone, Debug, Serialize, Deserialize)]
pub struct BadCase {
    pub eps: f64,
    pub min_samples: usize,
    pub cover: bool,
}

fn strat_bad(_t: Tier) -> BoxedStrategy<BadCase> {
    prop_oneof![(unit_pos(), any::<bool>()).prop_map(|(e, c)| BadCase { eps: e, min_samples: 0, cover: c }), (unit_pos(), 1usize..5, any::<bool>()).prop_map(|(e, m, c)| BadCase { eps: -e, min_samples: m, cover: c }), (1usize..5, any::<bool>()).prop_map(|(m, c)| BadCase { eps: 0.0, min_samples: m, cover: c }),].boxed()
}

fn check_bad(case: &BadCase, ctx: &mut Ctx) -> Result<(), Fail> {
    ctx.nontrivial(true);
    let x = DenseMatrix::from_2d_array(&[&[0.0, 0.0], &[1.0, 0.0], &[0.0, 1.0]]);
    let alg = if case.cover { KNNAlgorithmName::CoverTree } else { KNNAlgorithmName::LinearSearch };
    let r = no_panic("dbscan/invalid", || DBSCAN::fit(&x, DBSCANParameters::default().with_eps(case.eps).with_min_samples(case.min_samples).with_algorithm(alg)).is_err())?;
    ensure!(r, "dbscan/invalid-accepted", "eps = {} min_samples = {} accepted", case.eps, case.min_samples);
    Ok(())
}

pub fn property() -> Property {
    Property {
        id: "C13",
        quick_mult: 40,
        rule: "point sets of 1..100 (quick) / 150 (thorough) points in 1..4 dimensions: continuous, {0..3}^d lattice, all identical, collinear, duplicates, chains with integer gaps, blobs; eps equal to a realised pairwise distance, between two of them, below the smallest ('all noise') or beyond the largest ('one cluster'); min_samples 1..8; Euclidean and Manhattan; both backends on every case; plus the exhaustive enumeration of all subsets of <= 7 points of the line {0..6} and the 3x3 grid x eps in {1, sqrt 2, 2} x min_samples 1..4. non-trivial = (at least one border point and at least two clusters) or a border point that precedes every core point of its cluster in scan order (provisionally noise, later relabelled); distinct = distinct serialised case",
        assumptions: vec![
            "neighbourhoods of the reference are computed with the library's own Distance::distance (metrics are pinned by C17)".into(),
            "a border point may carry the label of any core point within eps; predict may return any bucket with the maximal vote (noise bucket = -1)".into(),
        ],
        subs: vec![sub_enum("dbscan", (2500, 60000), strat_dbscan, check_dbscan, enum_dbscan), sub_enum("dbscan_f32", (1000, 30000), strat_dbscan, check_dbscan_f32, enum_dbscan), sub("invalid_parameters", (200, 2000), strat_bad, check_bad)],
    }
}
