//! C07 — ordinary least squares and ridge regression return the exact minimiser.
use crate::engine::*;
use crate::gen::*;
use crate::matops::*;
use crate::oracle::{self, Mat};
use proptest::collection::vec;
use proptest::prelude::*;
use serde::{Deserialize, Serialize};
use smartcore::linalg::naive::dense_matrix::DenseMatrix;
use smartcore::linear::linear_regression::{LinearRegression, LinearRegressionParameters, LinearRegressionSolverName};
use smartcore::linear::ridge_regression::{RidgeRegression, RidgeRegressionParameters, RidgeRegressionSolverName};
use smartcore::math::num::RealNumber;

const C: f64 = 512.0;

#[derive(Clone, Debug, Serialize, Deserialize)]
pub struct RegCase {
    pub f32: bool,
    pub x: Mat,
    pub y: Vec<f64>,
    pub alpha: f64,
    pub normalize: bool,
    pub fresh: Mat,
    pub pure_noise: bool,
}

/// design matrices: U diag(s) V^T, then per-column scale and shift
pub fn design(nmax: usize, pmax: usize, f32: bool) -> BoxedStrategy<Mat> {
    (1usize..=pmax)
        .prop_flat_map(move |p| (p + 1..=nmax.max(p + 2), Just(p)))
        .prop_flat_map(move |(n, p)| {
            let lc = if f32 { prop_oneof![Just(0.5), Just(1.0), Just(2.0)].boxed() } else { prop_oneof![3 => Just(1.0), 2 => Just(3.0), 1 => Just(6.0)].boxed() };
            (lc.prop_flat_map(move |lc| cond_mat(n, p, lc)), vec(pow10(-2, 3), p), vec((unit(), prop::bool::weighted(0.7)), p), prop::bool::weighted(0.25))
        })
        .prop_map(move |(x0, scales, shifts, indicator)| {
            // columns of x0 have norm <= 1 over n rows: bring the spread to O(1) first
            // the shift is measured in units of the column's own spread: |mean| / std <= 100 (f32: 4)
            let sd0: Vec<f64> = x0.col_vars(0).iter().map(|v| v.sqrt()).collect();
            let mu0 = x0.col_means();
            let mut x = Mat::from_fn(x0.r, x0.c, |i, j| {
                let sc = if f32 { scales[j].min(100.0).max(0.1) } else { scales[j] };
                let shift = if shifts[j].1 { shifts[j].0 * if f32 { 4.0 } else { 100.0 } } else { 0.0 };
                ((x0.at(i, j) - mu0[j]) / sd0[j].max(1e-300) + shift) * sc
            });
            // one design in four carries a 0/1 indicator column (the last one): 1 where the generated value lies
            // above the column mean; it is non-constant because the generated column is
            if indicator {
                let j = x.c - 1;
                for i in 0..x.r {
                    let v = if x0.at(i, j) > mu0[j] { 1.0 } else { 0.0 };
                    x.set(i, j, v);
                }
            }
            x
        })
        .boxed()
}

fn strat_reg(t: Tier) -> BoxedStrategy<RegCase> {
    (prop::bool::weighted(0.25), any::<bool>(), pow10(-3, 2), prop::bool::weighted(0.2))
        .prop_flat_map(move |(f32, normalize, alpha, pure_noise)| {
            design(t.pick(50, 80), 8, f32).prop_flat_map(move |x| {
                let (n, p) = (x.r, x.c);
                (Just(x), vec(unit(), p), vec(unit(), n), unit(), pow10(-2, 2), unit_mat(4, p)).prop_map(move |(x, w, noise, b, ysc, fresh)| {
                    let xs = x.col_vars(0).iter().map(|v| v.sqrt()).collect::<Vec<f64>>();
                    let y: Vec<f64> = (0..n)
                        .map(|i| {
                            // "all y": one case in ten has a constant (non-zero) target
                            if noise[0] > 0.8 {
                                return (b.abs() * 3.0 + 0.5) * ysc * if b < 0.0 { -1.0 } else { 1.0 };
                            }
                            let signal: f64 = if pure_noise { 0.0 } else { (0..p).map(|j| w[j] * x.at(i, j) / xs[j].max(1e-300)).sum::<f64>() + b * 3.0 };
                            (signal + noise[i] * 0.3) * ysc
                        })
                        .collect();
                    let mu = x.col_means();
                    let fresh = Mat::from_fn(4, p, |i, j| mu[j] + fresh.at(i, j) * 2.0 * xs[j]);
                    RegCase { f32, x, y, alpha, normalize, fresh, pure_noise }
                })
            })
        })
        .boxed()
}

fn run<T: RealNumber>(case: &RegCase, ctx: &mut Ctx) -> Result<(), Fail> {
    let g = |v: f64| ft::<T>(tf::<T>(v));
    let x = case.x.map(g);
    let fresh = case.fresh.map(g);
    let y: Vec<f64> = case.y.iter().map(|v| g(*v)).collect();
    let alpha = g(case.alpha);
    let eps = ft(T::epsilon());
    let (n, p) = (x.r, x.c);
    let nf = n as f64;
    let xm = <DenseB as Build<T>>::build(&x);
    let fm = <DenseB as Build<T>>::build(&fresh);
    let ty: Vec<T> = tvec(&y);
    let a = x.hstack(&Mat::from_fn(n, 1, |_, _| 1.0));
    let sv = oracle::singular_values(&a);
    let cond_a = sv[0] / sv[p].max(f64::MIN_POSITIVE);
    let cond_limit = if eps > 1e-10 { 1e3 } else { 1e8 };
    let ynorm = oracle::norm2(&y);
    let mu = x.col_means();
    let sd: Vec<f64> = x.col_vars(0).iter().map(|v| v.sqrt()).collect();
    let shift_ratio = (0..p).map(|j| mu[j].abs() / sd[j]).fold(0.0, f64::max);
    ctx.label_if(cond_a > cond_limit, "design-with-intercept ill-conditioned (OLS not asserted)");
    ctx.nontrivial(p >= 2 && shift_ratio > 0.1 && cond_a >= 10.0);
    // ------------------------------------------------ ordinary least squares
    let mut ols: Vec<(Vec<f64>, f64)> = vec![];
    for solver in [LinearRegressionSolverName::QR, LinearRegressionSolverName::SVD] {
        let tag = format!("ols/{:?}", solver).to_lowercase();
        let r = catch(|| {
            // inherent entry points, or (every other case) the generic traits of smartcore::api
            let via_trait = (n + p) % 2 == 1;
            let m: LinearRegression<T, DenseMatrix<T>> = if via_trait { sup_fit(&xm, &ty, LinearRegressionParameters::default().with_solver(solver.clone())) } else { LinearRegression::fit(&xm, &ty, LinearRegressionParameters::default().with_solver(solver.clone())) }.map_err(|e| e.to_string())?;
            let w = to_mat(m.coefficients());
            let pred: Vec<T> = if via_trait { tr_predict(&m, &fm) } else { m.predict(&fm) }.map_err(|e| e.to_string())?;
            Ok::<_, String>((w, ft(m.intercept()), fvec(&pred)))
        });
        let (w, b, pred) = match r {
            Err(pn) => return fail(format!("{}/panic", tag), format!("panicked: {}", pn)),
            Ok(Err(e)) => return fail(format!("{}/err", tag), format!("valid input rejected: {}", e)),
            Ok(Ok(v)) => v,
        };
        ensure!((w.r, w.c) == (p, 1), format!("{}/shape", tag), "coefficients are {}x{}", w.r, w.c);
        let wv = w.d.clone();
        // predict = X w + b
        for i in 0..fresh.r {
            let want: f64 = (0..p).map(|j| fresh.at(i, j) * wv[j]).sum::<f64>() + b;
            let sc: f64 = (0..p).map(|j| (fresh.at(i, j) * wv[j]).abs()).sum::<f64>() + b.abs();
            ctx.bound(&format!("{}/predict", tag), (pred[i] - want).abs(), 8.0 * (p as f64 + 2.0) * eps * sc)?;
        }
        if cond_a <= cond_limit {
            let mut wb = wv.clone();
            wb.push(b);
            let fit = a.mulv(&wb);
            let r: Vec<f64> = (0..n).map(|i| y[i] - fit[i]).collect();
            let atr = a.t().mulv(&r);
            let scale = sv[0] * (sv[0] * oracle::norm2(&wb) + ynorm);
            ctx.bound(&format!("{}/residual-orthogonal-to-columns", tag), oracle::norm2(&atr[..p]), C * eps * nf * scale)?;
            ctx.bound(&format!("{}/residual-sums-to-zero", tag), atr[p].abs(), C * eps * nf * scale)?;
            ols.push((wb, 0.0));
        }
    }
    if ols.len() == 2 {
        let d: Vec<f64> = ols[0].0.iter().zip(&ols[1].0).map(|(a, b)| a - b).collect();
        let fitted_diff = oracle::norm2(&a.mulv(&d));
        let wn = oracle::norm2(&ols[0].0).max(oracle::norm2(&ols[1].0));
        ctx.bound("ols/qr-vs-svd", fitted_diff, C * eps * nf * cond_a * (sv[0] * wn + ynorm))?;
    }
    // ------------------------------------------------ ridge
    let z = if case.normalize { Mat::from_fn(n, p, |i, j| (x.at(i, j) - mu[j]) / sd[j]) } else { x.clone() };
    let zs = oracle::singular_values(&z);
    let ybar = oracle::mean(&y);
    // relative uncertainty of the library's own column scaling (one-pass variance, see C03's known finding)
    let delta = if case.normalize { (0..p).map(|j| 8.0 * nf * eps * (mu[j] * mu[j] + sd[j] * sd[j]) / (sd[j] * sd[j])).fold(0.0, f64::max) } else { 0.0 };
    // The SVD solver is a rank-thresholded pseudo-inverse (cut-off max(m,n) * eps * s_max on the p x p normal
    // matrix Z^T Z + alpha I). Where that matrix is numerically singular in the working precision - possible
    // only in f32, alpha >= 1e-3 keeps cond <= 1e12 in f64 - a direction is dropped by design and the result is
    // not the minimiser; the SVD solver's optimality is asserted only at a factor 64 away from the cut-off.
    let cond_g = (zs[0] * zs[0] + alpha) / (zs[p - 1] * zs[p - 1] + alpha);
    let svd_in_domain = cond_g * 64.0 * (p as f64) * eps < 1.0;
    ctx.label_if(!svd_in_domain, "ridge-svd: normal matrix numerically singular (SVD solver not asserted)");
    let mut ridge: Vec<Vec<f64>> = vec![];
    for solver in [RidgeRegressionSolverName::Cholesky, RidgeRegressionSolverName::SVD] {
        let is_svd = matches!(solver, RidgeRegressionSolverName::SVD);
        let tag = format!("ridge/{:?}", solver).to_lowercase();
        let r = catch(|| {
            // builder calls in two orders (a setter that rebuilds from the defaults would lose earlier settings)
            let params = if n % 2 == 0 { RidgeRegressionParameters::default().with_alpha(tf::<T>(alpha)).with_normalize(case.normalize).with_solver(solver.clone()) } else { RidgeRegressionParameters::default().with_solver(solver.clone()).with_normalize(case.normalize).with_alpha(tf::<T>(alpha)) };
            let via_trait = (n + p) % 2 == 1;
            let m: RidgeRegression<T, DenseMatrix<T>> = if via_trait { sup_fit(&xm, &ty, params) } else { RidgeRegression::fit(&xm, &ty, params) }.map_err(|e| e.to_string())?;
            let w = to_mat(m.coefficients());
            let pred: Vec<T> = if via_trait { tr_predict(&m, &fm) } else { m.predict(&fm) }.map_err(|e| e.to_string())?;
            Ok::<_, String>((w, ft(m.intercept()), fvec(&pred)))
        });
        let (w, b, pred) = match r {
            Err(pn) => return fail(format!("{}/panic", tag), format!("panicked: {}", pn)),
            Ok(Err(e)) => return fail(format!("{}/err", tag), format!("valid input rejected: {}", e)),
            Ok(Ok(v)) => v,
        };
        ensure!((w.r, w.c) == (p, 1), format!("{}/shape", tag), "coefficients are {}x{}", w.r, w.c);
        let wv = w.d.clone();
        for i in 0..fresh.r {
            let want: f64 = (0..p).map(|j| fresh.at(i, j) * wv[j]).sum::<f64>() + b;
            let sc: f64 = (0..p).map(|j| (fresh.at(i, j) * wv[j]).abs()).sum::<f64>() + b.abs();
            ctx.bound(&format!("{}/predict", tag), (pred[i] - want).abs(), 8.0 * (p as f64 + 2.0) * eps * sc)?;
        }
        // map to the variables of the stated objective
        let (wz, bz): (Vec<f64>, f64) = if case.normalize {
            let wz: Vec<f64> = (0..p).map(|j| wv[j] * sd[j]).collect();
            (wz, b + (0..p).map(|j| wv[j] * mu[j]).sum::<f64>())
        } else {
            ensure!(b == 0.0, format!("{}/intercept-not-zero", tag), "normalize = false but intercept = {:e}", b);
            (wv.clone(), 0.0)
        };
        let fit = z.mulv(&wz);
        let res: Vec<f64> = (0..n).map(|i| fit[i] + bz - y[i]).collect();
        let mut grad = z.t().mulv(&res);
        for j in 0..p {
            grad[j] += alpha * wz[j];
        }
        let wn = oracle::norm2(&wz);
        let scale = (zs[0] * zs[0] + alpha) * wn + zs[0] * ynorm;
        // the normal equations are formed explicitly: their rounding is eps * ||Z||^2 ||w||, independent of conditioning
        if !is_svd || svd_in_domain {
            ctx.bound(&format!("{}/gradient", tag), oracle::norm2(&grad), (C * eps * nf + 8.0 * delta) * scale)?;
        }
        if case.normalize {
            // unpenalised intercept: d/db = sum of residuals = 0  <=>  b_z = mean(y) (Z is centred)
            let sc = ybar.abs() + (0..p).map(|j| (wv[j] * mu[j]).abs()).sum::<f64>() + ynorm / nf.sqrt();
            ctx.bound(&format!("{}/intercept-equation", tag), (bz - ybar).abs(), (C * eps * nf + 8.0 * delta) * sc)?;
        }
        ridge.push(wz);
    }
    let d: Vec<f64> = ridge[0].iter().zip(&ridge[1]).map(|(a, b)| a - b).collect();
    let wn = oracle::norm2(&ridge[0]).max(oracle::norm2(&ridge[1]));
    if svd_in_domain {
        ctx.bound("ridge/cholesky-vs-svd", oracle::norm2(&d), (C * eps * nf + 8.0 * delta) * cond_g * (wn + zs[0] * ynorm / (zs[0] * zs[0] + alpha)))?;
    }
    Ok(())
}

fn check_reg(case: &RegCase, ctx: &mut Ctx) -> Result<(), Fail> {
    ctx.label_if(case.f32, "f32");
    ctx.label(if case.normalize { "ridge-normalize" } else { "ridge-raw" });
    ctx.label_if(case.pure_noise, "pure-noise-target");
    ctx.label_if(case.y.iter().all(|v| *v == case.y[0]), "constant-target");
    if case.f32 {
        run::<f32>(case, ctx)
    } else {
        run::<f64>(case, ctx)
    }
}

#[derive(Clone, Debug, Serialize, Deserialize)]
pub struct BadCase {
    pub n: usize,
    pub p: usize,
}

fn strat_bad(_t: Tier) -> BoxedStrategy<BadCase> {
    (1usize..=6).prop_flat_map(|p| (1usize..=p, Just(p))).prop_map(|(n, p)| BadCase { n, p }).boxed()
}

fn check_bad(case: &BadCase, ctx: &mut Ctx) -> Result<(), Fail> {
    ctx.nontrivial(true);
    let x = Mat::from_fn(case.n, case.p, |i, j| ((i * 7 + j * 3) % 5) as f64 + 0.5 * i as f64);
    let xm = <DenseB as Build<f64>>::build(&x);
    let y: Vec<f64> = (0..case.n).map(|i| i as f64).collect();
    let r = no_panic("ridge/n<=p", || RidgeRegression::fit(&xm, &y, RidgeRegressionParameters::default()).is_err())?;
    ensure!(r, "ridge/n<=p-accepted", "ridge accepted n = {} <= p = {}", case.n, case.p);
    Ok(())
}

pub fn property() -> Property {
    Property {
        id: "C07",
        quick_mult: 64,
        rule: "design matrices U diag(s) V^T (cond 10, 1e3 or 1e6; f32: <= 1e2) with 1<=p<=8, p<n<=50 (quick) / 80 (thorough), each column rescaled by 10^[-2,3] and shifted by up to 100 spreads (70% of the columns); one design in four has a 0/1 indicator as its last column; targets = linear signal + intercept + noise, pure noise, or (one case in ten) a non-zero constant, at scales 1e-2..1e2; alpha in 1e-3..1e2; both OLS solvers, both ridge solvers, both normalisation settings on every case; fresh rows for predict. non-trivial = p >= 2, a column with |mean| > 0.1 std and cond([X 1]) >= 10; distinct = distinct serialised case",
        assumptions: vec![
            format!("residual / gradient bounds are C*eps*n*scale with C = {} and scale = ||A|| (||A|| ||w|| + ||y||)", C),
            "the ridge SVD solver (gradient, agreement with Cholesky) is asserted only where cond(Z^T Z + alpha I) * 64 p eps < 1, i.e. a factor 64 away from the solver's rank cut-off; this excludes f32 cases only (alpha >= 1e-3 bounds the condition number by 1e12)".into(),
            "OLS assertions require cond([X 1]) <= 1e8 (f32: 1e3), measured per case with a one-sided Jacobi SVD; beyond that the SVD solver's own rank cut-off makes the two solvers differ by design".into(),
            "with normalisation on, the bounds are widened by the relative uncertainty 8 n eps (mean^2+std^2)/std^2 of the library's one-pass column variance (C03's known finding)".into(),
        ],
        subs: vec![sub("ols_ridge", (2000, 80000), strat_reg, check_reg), sub("ridge_invalid", (100, 1000), strat_bad, check_bad)],
    }
}
