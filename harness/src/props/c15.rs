//! C15 — evaluation metrics equal their textbook definitions.
use crate::engine::*;
use crate::gen::*;
use proptest::collection::vec;
use proptest::prelude::*;
use serde::{Deserialize, Serialize};
use smartcore::metrics;
use std::collections::BTreeMap;

#[derive(Clone, Debug, Serialize, Deserialize)]
pub struct BinCase {
    pub y_true: Vec<u8>,
    pub y_pred: Vec<u8>,
    pub beta: f64,
    pub multiclass: bool,
}

fn strat_bin(_t: Tier) -> BoxedStrategy<BinCase> {
    (1usize..=200, 0u32..=100, 0u32..=100, prop::bool::weighted(0.2))
        .prop_flat_map(|(n, pt, pp, multi)| {
            let k = if multi { 5u8 } else { 2u8 };
            (
                vec((0u32..100, 0u8..k), n).prop_map(move |v| v.iter().map(|(r, c)| if k == 2 { (*r < pt) as u8 } else { *c }).collect::<Vec<u8>>()),
                vec((0u32..100, 0u8..k), n).prop_map(move |v| v.iter().map(|(r, c)| if k == 2 { (*r < pp) as u8 } else { *c }).collect::<Vec<u8>>()),
                prop_oneof![Just(1.0), Just(0.5), Just(2.0), unit_pos().prop_map(|x| x * 3.0)],
                Just(multi),
            )
        })
        .prop_map(|(y_true, y_pred, beta, multiclass)| BinCase { y_true, y_pred, beta, multiclass })
        .boxed()
}

fn fv(v: &[u8]) -> Vec<f64> {
    v.iter().map(|x| *x as f64).collect()
}

fn check_bin(case: &BinCase, ctx: &mut Ctx) -> Result<(), Fail> {
    let (yt, yp) = (fv(&case.y_true), fv(&case.y_pred));
    let n = yt.len() as f64;
    let eq = case.y_true.iter().zip(&case.y_pred).filter(|(a, b)| a == b).count() as f64;
    let acc: f64 = no_panic("accuracy", || metrics::accuracy(&yt, &yp))?;
    ctx.bound("accuracy", (acc - eq / n).abs(), 4.0 * f64::EPSILON)?;
    if case.multiclass {
        ctx.label("multiclass-accuracy");
        ctx.nontrivial(yt.len() >= 2);
        return Ok(());
    }
    let tp = case.y_true.iter().zip(&case.y_pred).filter(|(a, b)| **a == 1 && **b == 1).count() as f64;
    let fp = case.y_true.iter().zip(&case.y_pred).filter(|(a, b)| **a == 0 && **b == 1).count() as f64;
    let fneg = case.y_true.iter().zip(&case.y_pred).filter(|(a, b)| **a == 1 && **b == 0).count() as f64;
    let pos = tp + fneg;
    ctx.nontrivial(pos > 0.0 && pos < n && tp + fp > 0.0);
    ctx.label_if(pos == 1.0, "single-positive");
    ctx.label_if(pos == n - 1.0, "single-negative");
    ctx.label_if(tp + fp == 0.0, "no-predicted-positive");
    ctx.label_if(pos == 0.0, "no-actual-positive");
    let p: f64 = no_panic("precision", || metrics::precision(&yt, &yp))?;
    let r: f64 = no_panic("recall", || metrics::recall(&yt, &yp))?;
    let f: f64 = no_panic("f1", || metrics::f1(&yt, &yp, case.beta))?;
    if tp + fp > 0.0 {
        ctx.bound("precision", (p - tp / (tp + fp)).abs(), 4.0 * f64::EPSILON)?;
    }
    if pos > 0.0 {
        ctx.bound("recall", (r - tp / pos).abs(), 4.0 * f64::EPSILON)?;
    }
    if tp + fp > 0.0 && pos > 0.0 && tp > 0.0 {
        let b2 = case.beta * case.beta;
        let want = (1.0 + b2) * tp / ((1.0 + b2) * tp + b2 * fneg + fp);
        ctx.bound("f-beta", (f - want).abs(), 16.0 * f64::EPSILON)?;
    }
    // the f32 instantiation of the same metrics (counts up to 200 are exact in f32; one rounding per division)
    let (yt32, yp32): (Vec<f32>, Vec<f32>) = (case.y_true.iter().map(|x| *x as f32).collect(), case.y_pred.iter().map(|x| *x as f32).collect());
    let e32 = f32::EPSILON as f64;
    let acc32: f32 = no_panic("accuracy-f32", || metrics::accuracy(&yt32, &yp32))?;
    ctx.bound("accuracy-f32", (acc32 as f64 - eq / n).abs(), 4.0 * e32)?;
    let p32: f32 = no_panic("precision-f32", || metrics::precision(&yt32, &yp32))?;
    let r32: f32 = no_panic("recall-f32", || metrics::recall(&yt32, &yp32))?;
    if tp + fp > 0.0 {
        ctx.bound("precision-f32", (p32 as f64 - tp / (tp + fp)).abs(), 4.0 * e32)?;
    }
    if pos > 0.0 {
        ctx.bound("recall-f32", (r32 as f64 - tp / pos).abs(), 4.0 * e32)?;
    }
    Ok(())
}

// ------------------------------------------------------------------ AUC

#[derive(Clone, Debug, Serialize, Deserialize)]
pub struct AucCase {
    pub y_true: Vec<u8>,
    pub score: Vec<f64>,
}

fn strat_auc(_t: Tier) -> BoxedStrategy<AucCase> {
    (1usize..=200, 0u32..=100)
        .prop_flat_map(|(n, pt)| {
            let scores = prop_oneof![
                3 => vec(unit(), n),
                3 => vec((0i32..3).prop_map(|x| x as f64 * 0.5), n),
                1 => unit().prop_map(move |x| vec![x; n]),
                2 => vec((0i32..12).prop_map(|x| x as f64 / 8.0), n),
                // sorted / reverse sorted inputs (argsort paths)
                1 => vec(unit(), n).prop_map(|mut v| { v.sort_by(|a, b| a.partial_cmp(b).unwrap()); v }),
                1 => vec(unit(), n).prop_map(|mut v| { v.sort_by(|a, b| b.partial_cmp(a).unwrap()); v }),
            ];
            (vec(0u32..100, n).prop_map(move |v| v.iter().map(|r| (*r < pt) as u8).collect::<Vec<u8>>()), scores)
        })
        .prop_map(|(y_true, score)| AucCase { y_true, score })
        .boxed()
}

pub fn auc_reference(y: &[u8], s: &[f64]) -> Option<f64> {
    let (mut num, mut den) = (0.0, 0.0);
    for i in 0..y.len() {
        if y[i] != 1 {
            continue;
        }
        for j in 0..y.len() {
            if y[j] != 0 {
                continue;
            }
            den += 1.0;
            if s[i] > s[j] {
                num += 1.0;
            } else if s[i] == s[j] {
                num += 0.5;
            }
        }
    }
    if den > 0.0 {
        Some(num / den)
    } else {
        None
    }
}

pub fn check_auc(case: &AucCase, ctx: &mut Ctx) -> Result<(), Fail> {
    let yt = fv(&case.y_true);
    let got: f64 = no_panic("auc", || metrics::roc_auc_score(&yt, &case.score))?;
    let mut d = case.score.clone();
    d.sort_by(|a, b| a.partial_cmp(b).unwrap());
    d.dedup();
    let ties = d.len() < case.score.len();
    match auc_reference(&case.y_true, &case.score) {
        None => {
            ctx.label("single-class (not asserted)");
            Ok(())
        }
        Some(want) => {
            ctx.nontrivial(ties && d.len() > 1);
            ctx.label_if(ties, "ties");
            ctx.label_if(d.len() == 1, "constant-scores");
            let pos = case.y_true.iter().filter(|x| **x == 1).count();
            ctx.label_if(pos == 1 || pos + 1 == yt.len(), "single-positive-or-negative");
            ctx.bound("auc", (got - want).abs(), 1e-12)?;
            // f32 instantiation on scores rounded to f32 (the reference is recomputed on the rounded scores, whose
            // tie pattern may differ); rank sums up to 200*201/2 are exact in f32
            let s32: Vec<f32> = case.score.iter().map(|x| *x as f32).collect();
            if s32.iter().all(|x| x.is_finite()) {
                let yt32: Vec<f32> = case.y_true.iter().map(|x| *x as f32).collect();
                let got32: f32 = no_panic("auc-f32", || metrics::roc_auc_score(&yt32, &s32))?;
                let s32_64: Vec<f64> = s32.iter().map(|x| *x as f64).collect();
                if let Some(want32) = auc_reference(&case.y_true, &s32_64) {
                    ctx.bound("auc-f32", (got32 as f64 - want32).abs(), 16.0 * f32::EPSILON as f64)?;
                }
            }
            Ok(())
        }
    }
}

// ------------------------------------------------------------------ regression metrics

#[derive(Clone, Debug, Serialize, Deserialize)]
pub struct RegCase {
    pub y_true: Vec<f64>,
    pub y_pred: Vec<f64>,
}

fn strat_reg(_t: Tier) -> BoxedStrategy<RegCase> {
    (1usize..=200, pow10(-6, 6), pow10(-2, 2), prop_oneof![Just(0.0), unit().prop_map(|x| x * 100.0)])
        .prop_flat_map(|(n, scale, noise, offset)| {
            (vec(unit(), n), vec(unit(), n)).prop_map(move |(a, e)| {
                let y_true: Vec<f64> = a.iter().map(|x| (x + offset) * scale).collect();
                let y_pred: Vec<f64> = y_true.iter().zip(&e).map(|(y, e)| y + e * noise * scale).collect();
                RegCase { y_true, y_pred }
            })
        })
        .boxed()
}

fn check_reg(case: &RegCase, ctx: &mut Ctx) -> Result<(), Fail> {
    let (yt, yp) = (&case.y_true, &case.y_pred);
    let n = yt.len() as f64;
    let res: Vec<f64> = yt.iter().zip(yp).map(|(a, b)| a - b).collect();
    let mse_w = res.iter().map(|r| r * r).sum::<f64>() / n;
    let mae_w = res.iter().map(|r| r.abs()).sum::<f64>() / n;
    let mean = yt.iter().sum::<f64>() / n;
    let ss_tot: f64 = yt.iter().map(|y| (y - mean) * (y - mean)).sum();
    let ss_res: f64 = res.iter().map(|r| r * r).sum();
    let tol = 8.0 * (n + 2.0) * f64::EPSILON;
    let mse: f64 = no_panic("mse", || metrics::mean_squared_error(yt, yp))?;
    let mae: f64 = no_panic("mae", || metrics::mean_absolute_error(yt, yp))?;
    let r2: f64 = no_panic("r2", || metrics::r2(yt, yp))?;
    ctx.bound("mse", (mse - mse_w).abs(), tol * mse_w)?;
    ctx.bound("mae", (mae - mae_w).abs(), tol * mae_w)?;
    // ss_tot is relatively accurate only up to the rounding of the mean
    let spread = yt.iter().map(|y| (y - mean).abs()).fold(0.0, f64::max);
    let well = ss_tot > 0.0 && spread > 1e-6 * mean.abs();
    ctx.nontrivial(yt.len() >= 3 && well);
    ctx.label_if(!well, "constant-or-offset-dominated y_true (not asserted)");
    if well {
        let ratio = ss_res / ss_tot;
        let dm = 4.0 * n * f64::EPSILON * mean.abs(); // rounding of the mean
        let rel_tot = tol + (n * dm * dm + 2.0 * dm * spread * n) / ss_tot;
        ctx.bound("r2", (r2 - (1.0 - ratio)).abs(), (tol + rel_tot) * (1.0 + ratio))?;
    }
    Ok(())
}

// ------------------------------------------------------------------ cluster metrics

#[derive(Clone, Debug, Serialize, Deserialize)]
pub struct ClusterCase {
    pub a: Vec<i32>,
    pub b: Vec<i32>,
    pub layout: String,
}

fn labels(n: usize, k: usize) -> BoxedStrategy<Vec<i32>> {
    // arbitrary integer label values: a random injective map from 0..k to values
    (vec(0usize..k, n), Just((-20i32..=20).collect::<Vec<i32>>()).prop_shuffle()).prop_map(|(idx, vals)| idx.iter().map(|i| vals[*i]).collect()).boxed()
}

fn strat_cluster(_t: Tier) -> BoxedStrategy<ClusterCase> {
    let random = (1usize..=200, 1usize..=8, 1usize..=8).prop_flat_map(|(n, ka, kb)| (labels(n, ka), labels(n, kb))).prop_map(|(a, b)| ClusterCase { a, b, layout: "random".into() });
    let identical = (1usize..=200, 1usize..=8).prop_flat_map(|(n, k)| labels(n, k)).prop_map(|a| ClusterCase { b: a.iter().map(|x| x * 3 - 7).collect(), a, layout: "identical-up-to-renaming".into() });
    let product = (1usize..=6, 1usize..=6, 1usize..=4).prop_map(|(ka, kb, rep)| {
        // every (i,j) pair occurs exactly `rep` times: exactly independent
        let mut a = vec![];
        let mut b = vec![];
        for i in 0..ka {
            for j in 0..kb {
                for _ in 0..rep {
                    a.push(i as i32 * 5 - 3);
                    b.push(j as i32 * 2 + 10);
                }
            }
        }
        ClusterCase { a, b, layout: "product (independent)".into() }
    });
    let refinement = (1usize..=200, 1usize..=4, 2usize..=3).prop_flat_map(|(n, k, m)| (labels(n, k), vec(0usize..m, n))).prop_map(|(a, sub)| {
        // b refines a: H(a|b) = 0
        let b: Vec<i32> = a.iter().zip(&sub).map(|(x, s)| x * 10 + *s as i32).collect();
        ClusterCase { a, b, layout: "b-refines-a".into() }
    });
    prop_oneof![4 => random, 1 => identical, 1 => product, 2 => refinement].boxed()
}

fn entropy_of(counts: &[f64], n: f64) -> f64 {
    counts.iter().filter(|c| **c > 0.0).map(|c| -(c / n) * (c / n).ln()).sum()
}

/// (homogeneity, completeness, v) from the contingency table, 0 log 0 = 0
pub fn hcv_reference(a: &[i32], b: &[i32]) -> (f64, f64, f64) {
    let n = a.len() as f64;
    let mut ca: BTreeMap<i32, f64> = BTreeMap::new();
    let mut cb: BTreeMap<i32, f64> = BTreeMap::new();
    let mut cab: BTreeMap<(i32, i32), f64> = BTreeMap::new();
    for i in 0..a.len() {
        *ca.entry(a[i]).or_insert(0.0) += 1.0;
        *cb.entry(b[i]).or_insert(0.0) += 1.0;
        *cab.entry((a[i], b[i])).or_insert(0.0) += 1.0;
    }
    let ha = entropy_of(&ca.values().cloned().collect::<Vec<_>>(), n);
    let hb = entropy_of(&cb.values().cloned().collect::<Vec<_>>(), n);
    // conditional entropies
    let mut h_a_given_b = 0.0;
    let mut h_b_given_a = 0.0;
    for ((x, y), c) in &cab {
        h_a_given_b -= (c / n) * (c / cb[y]).ln();
        h_b_given_a -= (c / n) * (c / ca[x]).ln();
    }
    let h = if ca.len() == 1 { 1.0 } else { 1.0 - h_a_given_b / ha };
    let c = if cb.len() == 1 { 1.0 } else { 1.0 - h_b_given_a / hb };
    let v = if h + c <= 0.0 { 0.0 } else { 2.0 * h * c / (h + c) };
    (h, c, v)
}

fn check_cluster(case: &ClusterCase, ctx: &mut Ctx) -> Result<(), Fail> {
    let fa: Vec<f64> = case.a.iter().map(|x| *x as f64).collect();
    let fb: Vec<f64> = case.b.iter().map(|x| *x as f64).collect();
    let distinct = |v: &Vec<i32>| {
        let mut d = v.clone();
        d.sort();
        d.dedup();
        d.len()
    };
    let (ka, kb) = (distinct(&case.a), distinct(&case.b));
    ctx.nontrivial(ka >= 2 && kb >= 2);
    ctx.label(format!("layout:{}", case.layout));
    ctx.label_if(ka == 1 || kb == 1, "single-class-labelling");
    let (h, c, v): (f64, f64, f64) = no_panic("hcv", || (metrics::homogeneity_score(&fa, &fb), metrics::completeness_score(&fa, &fb), metrics::v_measure_score(&fa, &fb)))?;
    let (hw, cw, vw) = hcv_reference(&case.a, &case.b);
    let tol = 1e-10;
    let tag = if ka == 1 || kb == 1 { "hcv/single-class" } else { "hcv" };
    for (name, g, w) in [("homogeneity", h, hw), ("completeness", c, cw), ("v-measure", v, vw)] {
        ensure!(g.is_finite(), format!("{}/{}/non-finite", tag, name), "{} = {} for labels_true {:?} labels_pred {:?} (definition gives {})", name, g, case.a, case.b, w);
        ensure!(g >= -1e-12 && g <= 1.0 + 1e-12, format!("{}/{}/range", tag, name), "{} = {} outside [0,1]", name, g);
        ctx.bound(&format!("{}/{}", tag, name), (g - w).abs(), tol)?;
    }
    // swapping the arguments swaps homogeneity and completeness
    let (h2, c2): (f64, f64) = no_panic("hcv", || (metrics::homogeneity_score(&fb, &fa), metrics::completeness_score(&fb, &fa)))?;
    ctx.bound(&format!("{}/swap", tag), (h - c2).abs().max((c - h2).abs()), tol)?;
    // injective relabelling leaves all three unchanged
    let ra: Vec<f64> = case.a.iter().map(|x| (-2 * x + 100) as f64).collect();
    let rb: Vec<f64> = case.b.iter().map(|x| (7 * x - 300) as f64).collect();
    let (h3, c3, v3): (f64, f64, f64) = no_panic("hcv", || (metrics::homogeneity_score(&ra, &rb), metrics::completeness_score(&ra, &rb), metrics::v_measure_score(&ra, &rb)))?;
    ctx.bound(&format!("{}/relabel", tag), (h - h3).abs().max((c - c3).abs()).max((v - v3).abs()), tol)?;
    // the same scores through the f32 instantiation (the metrics are generic over the element type): finite, in
    // range, and equal to the definition within a tolerance shaped like the f32 rounding of the entropy sums
    // divided by the smaller label entropy
    if ka >= 2 && kb >= 2 {
        let ga: Vec<f32> = case.a.iter().map(|x| *x as f32).collect();
        let gb: Vec<f32> = case.b.iter().map(|x| *x as f32).collect();
        let (h32, c32, v32): (f32, f32, f32) = no_panic("hcv-f32", || (metrics::homogeneity_score(&ga, &gb), metrics::completeness_score(&ga, &gb), metrics::v_measure_score(&ga, &gb)))?;
        let n = case.a.len() as f64;
        let count = |v: &Vec<i32>| {
            let mut m: BTreeMap<i32, f64> = BTreeMap::new();
            for x in v {
                *m.entry(*x).or_insert(0.0) += 1.0;
            }
            m.values().cloned().collect::<Vec<f64>>()
        };
        let hmin = entropy_of(&count(&case.a), n).min(entropy_of(&count(&case.b), n));
        let tol32 = 8.0 * (f32::EPSILON as f64) * ((ka * kb) as f64 + 4.0) / hmin.min(1.0);
        for (name, g, w) in [("homogeneity", h32 as f64, hw), ("completeness", c32 as f64, cw), ("v-measure", v32 as f64, vw)] {
            ensure!(g.is_finite() && g >= -1e-5 && g <= 1.0 + 1e-5, format!("hcv-f32/{}/range", name), "f32 {} = {}", name, g);
            // V is the harmonic mean of two numbers that each carry tol32 of error; near h = c = 0 it amplifies by at most 2
            ctx.bound(&format!("hcv-f32/{}", name), (g - w).abs(), if name == "v-measure" { 4.0 * tol32 } else { tol32 })?;
        }
    }
    // the struct interface agrees with the free functions
    let t: (f64, f64, f64) = no_panic("hcv", || metrics::ClusterMetrics::hcv_score().get_score(&fa, &fb))?;
    // (two evaluations may differ in the last bits: the entropy sums run over a hash map)
    ensure!((t.0 - h).abs() <= tol && (t.1 - c).abs() <= tol && (t.2 - v).abs() <= tol, "hcv/interfaces-differ", "hcv_score().get_score = {:?}, free functions = {:?}", t, (h, c, v));
    Ok(())
}

// ------------------------------------------------------------------ length mismatch

#[derive(Clone, Debug, Serialize, Deserialize)]
pub struct LenCase {
    pub a: Vec<u8>,
    pub b: Vec<u8>,
}

fn strat_len(_t: Tier) -> BoxedStrategy<LenCase> {
    (1usize..=30, 1usize..=30).prop_filter("differ", |(a, b)| a != b).prop_flat_map(|(a, b)| (vec(0u8..2, a), vec(0u8..2, b))).prop_map(|(a, b)| LenCase { a, b }).boxed()
}

fn check_len(case: &LenCase, ctx: &mut Ctx) -> Result<(), Fail> {
    ctx.nontrivial(true);
    let (a, b) = (fv(&case.a), fv(&case.b));
    must_panic("accuracy/length-mismatch", || -> f64 { metrics::accuracy(&a, &b) })?;
    must_panic("precision/length-mismatch", || -> f64 { metrics::precision(&a, &b) })?;
    must_panic("recall/length-mismatch", || -> f64 { metrics::recall(&a, &b) })?;
    must_panic("f1/length-mismatch", || -> f64 { metrics::f1(&a, &b, 1.0) })?;
    must_panic("mse/length-mismatch", || -> f64 { metrics::mean_squared_error(&a, &b) })?;
    must_panic("mae/length-mismatch", || -> f64 { metrics::mean_absolute_error(&a, &b) })?;
    must_panic("r2/length-mismatch", || -> f64 { metrics::r2(&a, &b) })?;
    Ok(())
}

// ------------------------------------------------------------------ the argsort under AUC (and under the trees), hook H1

#[derive(Clone, Debug, Serialize, Deserialize)]
pub struct ArgsortCase {
    pub v: Vec<f64>,
}

fn strat_argsort(_t: Tier) -> BoxedStrategy<ArgsortCase> {
    (1usize..=120)
        .prop_flat_map(|n| {
            prop_oneof![
                2 => vec(unit(), n),
                3 => vec((0i32..4).prop_map(|x| x as f64), n),
                1 => vec((0i32..2).prop_map(|x| x as f64), n),
                1 => vec(unit(), n).prop_map(|mut v| { v.sort_by(|a, b| a.partial_cmp(b).unwrap()); v }),
                1 => vec(unit(), n).prop_map(|mut v| { v.sort_by(|a, b| b.partial_cmp(a).unwrap()); v }),
                1 => (unit(), Just(n)).prop_map(|(x, n)| vec![x; n]),
                // organ-pipe and saw-tooth patterns (median-of-three stress)
                1 => Just((0..n).map(|i| if i < n / 2 { i as f64 } else { (n - i) as f64 }).collect::<Vec<f64>>()),
                1 => Just((0..n).map(|i| (i % 5) as f64).collect::<Vec<f64>>()),
            ]
        })
        .prop_map(|v| ArgsortCase { v })
        .boxed()
}

fn check_argsort(case: &ArgsortCase, ctx: &mut Ctx) -> Result<(), Fail> {
    use smartcore::verif_hooks::QuickArgSort;
    let n = case.v.len();
    let mut d = case.v.clone();
    d.sort_by(|a, b| a.partial_cmp(b).unwrap());
    let want = d.clone();
    d.dedup();
    ctx.nontrivial(n >= 8 && d.len() < n && d.len() > 1);
    ctx.label_if(n <= 7, "len<=7 (insertion sort only)");
    ctx.label_if(n > 7, "len>7 (partitioning)");
    let (sorted, idx, idx2) = no_panic("quick_argsort", || {
        let mut v = case.v.clone();
        let idx = v.quick_argsort_mut();
        let idx2 = case.v.quick_argsort();
        (v, idx, idx2)
    })?;
    ensure!(sorted == want, "argsort/not-sorted", "quick_argsort_mut left {:?} (input {:?})", sorted, case.v);
    ensure!(idx.len() == n, "argsort/index-length", "{} indices for {} values", idx.len(), n);
    let mut seen = vec![false; n];
    for (pos, &i) in idx.iter().enumerate() {
        ensure!(i < n && !seen[i], "argsort/not-a-permutation", "indices {:?} are not a permutation", idx);
        seen[i] = true;
        ensure!(case.v[i] == sorted[pos], "argsort/index-value-mismatch", "index {} at position {} points at {} but the sorted value is {}", i, pos, case.v[i], sorted[pos]);
    }
    ensure!(idx2 == idx, "argsort/copying-variant-differs", "quick_argsort and quick_argsort_mut return different permutations");
    Ok(())
}

pub fn property() -> Property {
    Property {
        id: "C15",
        quick_mult: 60,
        rule: "binary label vectors of length 1..200 at every balance (independent positive rates 0..100% for truth and prediction), multi-class labels for accuracy, scores continuous / 3-valued / 12-valued / constant / pre-sorted, real targets at scales 1e-6..1e6 with optional offset, cluster labellings with 1..8 classes and arbitrary integer values in layouts random / identical-up-to-renaming / exact product / refinement. non-trivial = both classes present and a predicted positive (counts), ties with >= 2 distinct scores (AUC), >= 3 points and non-degenerate y_true (regression), >= 2 classes on both sides (cluster); distinct = distinct serialised case",
        assumptions: vec![
            "0/0 cases of the definitions (no predicted positive for precision, no positive for recall / AUC, constant y_true for R^2) are generated but only required not to panic".into(),
            "AUC reference is O(n^2) pair counting with 1/2 per tie; cluster reference uses the contingency table with 0 log 0 = 0".into(),
        ],
        subs: vec![
            sub("binary_counts", (6000, 200000), strat_bin, check_bin),
            sub("auc", (4000, 150000), strat_auc, check_auc),
            sub("regression", (3000, 100000), strat_reg, check_reg),
            sub("cluster", (4000, 150000), strat_cluster, check_cluster),
            sub("length_mismatch", (500, 10000), strat_len, check_len),
            sub("argsort", (3000, 100000), strat_argsort, check_argsort),
        ],
    }
}
