//! C02 — eigen-decomposition (symmetric and general).
use crate::engine::*;
use crate::gen::*;
use crate::matops::*;
use crate::oracle::{self, norm2, orth_defect, Mat};
use proptest::collection::vec;
use proptest::prelude::*;
use serde::{Deserialize, Serialize};
use smartcore::linalg::evd::EVDDecomposableMatrix;
use smartcore::math::num::RealNumber;

const C: f64 = 512.0;

#[derive(Clone, Debug, Serialize, Deserialize)]
pub struct EvdCase {
    pub f32: bool,
    pub class: String,
    pub scale: f64,
    pub a: Mat,
    /// constructed spectrum (re, im) when known exactly up to rounding of the construction
    pub spectrum: Option<Vec<(f64, f64)>>,
    /// condition number of the similarity used in the construction (inflates eigenvalue / eigenvector bounds)
    pub sim_cond: f64,
}

fn dim(t: Tier) -> std::ops::RangeInclusive<usize> {
    1..=t.pick(20, 30)
}

pub fn strat_sym(t: Tier) -> BoxedStrategy<EvdCase> {
    (dim(t), prop::bool::weighted(0.3), prop_oneof![2 => Just(1.0), 3 => pow10(-12, 12)])
        .prop_flat_map(|(n, f32, scale)| {
            let eigs = prop_oneof![
                // random distinct-ish
                3 => vec(unit(), n).boxed(),
                // repeated eigenvalues: few distinct values
                2 => (vec(-3i32..=3, 3), vec(0usize..3, n)).prop_map(|(v, s)| s.iter().map(|i| v[*i] as f64 * 0.5).collect::<Vec<f64>>()).boxed(),
                // rank deficient: some exact zeros
                2 => (vec(unit(), n), vec(any::<bool>(), n)).prop_map(|(v, z)| v.iter().zip(&z).map(|(x, z)| if *z { 0.0 } else { *x }).collect::<Vec<f64>>()).boxed(),
                // positive log-spread
                1 => spectrum(n, if f32 { 3.0 } else { 6.0 }).boxed(),
            ];
            let shape = prop_oneof![
                4 => Just(0u8), // dense Q diag Q^T
                1 => Just(1u8), // diagonal
                2 => Just(2u8), // block diagonal (two independent blocks)
            ];
            (eigs, shape).prop_flat_map(move |(l, shape)| {
                let ll = l.clone();
                let a: BoxedStrategy<(String, Mat)> = match shape {
                    1 => Just(("diagonal".to_string(), Mat::diag(&l))).boxed(),
                    2 if n >= 2 => {
                        let k = n / 2;
                        let (l1, l2) = (l[..k].to_vec(), l[k..].to_vec());
                        (sym_from_eigs(l1), sym_from_eigs(l2))
                            .prop_map(move |(a1, a2)| {
                                ("block-diagonal".to_string(), Mat::from_fn(n, n, |i, j| if i < k && j < k { a1.at(i, j) } else if i >= k && j >= k { a2.at(i - k, j - k) } else { 0.0 }))
                            })
                            .boxed()
                    }
                    _ => sym_from_eigs(l).prop_map(|a| ("dense".to_string(), a)).boxed(),
                };
                a.prop_map(move |(class, a)| EvdCase { f32, class, scale, a: a.scale(scale), spectrum: Some(ll.iter().map(|x| (x * scale, 0.0)).collect()), sim_cond: 1.0 })
            })
        })
        .boxed()
}

pub fn prep(case: &EvdCase) -> (Mat, f64) {
    if case.f32 {
        (to_f32_grid(&case.a), f32::EPSILON as f64)
    } else {
        (case.a.clone(), f64::EPSILON)
    }
}

pub fn sym_run<T: RealNumber, B: Build<T>>(case: &EvdCase, a: &Mat, eps: f64, ctx: &mut Ctx) -> Result<(), Fail> {
    let n = a.r;
    // the f32 grid may break exact symmetry by rounding: symmetrise the input itself
    let a = Mat::from_fn(n, n, |i, j| if i <= j { a.at(i, j) } else { a.at(j, i) });
    let ma = <B as Build<T>>::build(&a);
    let evd = match no_panic("evd(symmetric)", || ma.evd(true))? {
        Ok(x) => x,
        Err(e) => return fail("evd-sym/err", format!("evd(true) failed: {}", e)),
    };
    let (d, e, v) = (fvec(&evd.d), fvec(&evd.e), to_mat(&evd.V));
    ensure!(d.len() == n && e.len() == n && (v.r, v.c) == (n, n), "evd-sym/shape", "shapes d {} e {} V {}x{}", d.len(), e.len(), v.r, v.c);
    ensure!(e.iter().all(|x| *x == 0.0), "evd-sym/imaginary", "imaginary parts not all zero: {:?}", e);
    ensure!(d.windows(2).all(|w| w[0] >= w[1]), "evd-sym/order", "eigenvalues not non-increasing: {:?}", d);
    let an = a.fro();
    let nf = n as f64;
    ctx.bound("evd-sym/VtV-I", orth_defect(&v, n), C * eps * nf)?;
    let vd = Mat::from_fn(n, n, |i, j| v.at(i, j) * d[j]);
    ctx.bound("evd-sym/AV-VD", a.mul(&v).sub(&vd).fro(), C * eps * nf * an)?;
    if let Some(sp) = &case.spectrum {
        let mut l: Vec<f64> = sp.iter().map(|x| x.0).collect();
        l.sort_by(|x, y| y.partial_cmp(x).unwrap());
        let worst = l.iter().zip(&d).map(|(x, y)| (x - y).abs()).fold(0.0, f64::max);
        ctx.bound("evd-sym/eigenvalues-vs-construction", worst, C * eps * nf * an.max(f64::MIN_POSITIVE))?;
    }
    Ok(())
}

fn check_sym(case: &EvdCase, ctx: &mut Ctx) -> Result<(), Fail> {
    let (a, eps) = prep(case);
    ctx.label(format!("class:{}", case.class));
    ctx.label_if(case.f32, "f32");
    ctx.label_if(case.scale != 1.0, "rescaled");
    let distinct = {
        let mut l: Vec<f64> = case.spectrum.as_ref().unwrap().iter().map(|x| x.0).collect();
        l.sort_by(|x, y| x.partial_cmp(y).unwrap());
        l.dedup();
        l.len()
    };
    ctx.label_if(distinct < a.r, "repeated-eigenvalues");
    ctx.nontrivial(a.r >= 3);
    if case.f32 {
        sym_run::<f32, DenseB>(case, &a, eps, ctx)
    } else {
        sym_run::<f64, DenseB>(case, &a, eps, ctx)
    }
}

// ------------------------------------------------------------------ general matrices

/// block-diagonal real matrix with the given eigenvalues: (re, 0) -> 1x1, (re, im>0) -> 2x2 [[re, im],[-im, re]]
fn real_blocks(eigs: &[(f64, f64)]) -> (Mat, Vec<(f64, f64)>) {
    let n: usize = eigs.iter().map(|e| if e.1 != 0.0 { 2 } else { 1 }).sum();
    let mut b = Mat::zeros(n, n);
    let mut sp = vec![];
    let mut k = 0;
    for &(re, im) in eigs {
        if im != 0.0 {
            b.set(k, k, re);
            b.set(k + 1, k + 1, re);
            b.set(k, k + 1, im);
            b.set(k + 1, k, -im);
            sp.push((re, im.abs()));
            sp.push((re, -im.abs()));
            k += 2;
        } else {
            b.set(k, k, re);
            sp.push((re, 0.0));
            k += 1;
        }
    }
    (b, sp)
}

fn eig_list(max_n: usize) -> BoxedStrategy<Vec<(f64, f64)>> {
    // well separated: distinct real parts on a grid of step 1/2, imaginary parts in {0, 1/2 .. 2}
    (1..=max_n)
        .prop_flat_map(|n| (Just((-12i32..=12).collect::<Vec<i32>>()).prop_shuffle(), vec(0u8..5, n), vec(any::<bool>(), n)))
        .prop_map(|(re, im, cplx)| {
            let mut out = vec![];
            let mut size = 0;
            for i in 0..im.len() {
                let is_c = cplx[i] && im[i] > 0;
                out.push((re[i] as f64 * 0.5, if is_c { im[i] as f64 * 0.5 } else { 0.0 }));
                size += if is_c { 2 } else { 1 };
                if size >= 28 {
                    break;
                }
            }
            out
        })
        .boxed()
}

pub fn strat_general(t: Tier) -> BoxedStrategy<EvdCase> {
    let nmax = *dim(t).end();
    let f = |f32: bool, class: &str, a: Mat, sp: Option<Vec<(f64, f64)>>, sim_cond: f64| EvdCase { f32, class: class.to_string(), scale: 1.0, a, spectrum: sp, sim_cond };
    let random = (1..=nmax, any::<bool>()).prop_flat_map(move |(n, ints)| if ints { int_mat(n, n, -5, 5).boxed() } else { unit_mat(n, n).boxed() }).prop_map(move |a| f(false, "random", a, None, 1.0));
    let triangular = (1..=nmax.min(12), any::<bool>()).prop_flat_map(|(n, upper)| (int_mat(n, n, -4, 4), Just(upper))).prop_map(move |(m, upper)| {
        let n = m.r;
        let a = Mat::from_fn(n, n, |i, j| if i == j || (j > i) == upper { m.at(i, j) } else { 0.0 });
        f(false, "triangular", a, None, 1.0)
    });
    let companion = eig_list(5).prop_map(move |eigs| {
        // polynomial coefficients from the roots
        let mut c = vec![1.0f64]; // highest degree first
        for &(re, im) in &eigs {
            let fac: Vec<f64> = if im != 0.0 { vec![1.0, -2.0 * re, re * re + im * im] } else { vec![1.0, -re] };
            let mut nc = vec![0.0; c.len() + fac.len() - 1];
            for (i, x) in c.iter().enumerate() {
                for (j, y) in fac.iter().enumerate() {
                    nc[i + j] += x * y;
                }
            }
            c = nc;
        }
        let n = c.len() - 1;
        let a = Mat::from_fn(n, n, |i, j| if i == 0 { -c[j + 1] } else if i == j + 1 { 1.0 } else { 0.0 });
        f(false, "companion", a, None, 1.0)
    });
    let normal = (eig_list(nmax / 2), any::<bool>()).prop_flat_map(move |(eigs, f32)| {
        let (b, sp) = real_blocks(&eigs);
        let n = b.r;
        orth(n).prop_map(move |q| f(f32, "normal", q.mul(&b).mul(&q.t()), Some(sp.clone()), 1.0))
    });
    let rotation_sim = eig_list(nmax / 2).prop_flat_map(move |eigs| {
        let (b, sp) = real_blocks(&eigs);
        let n = b.r;
        cond_mat(n, n, 0.7).prop_map(move |s| {
            let sinv = oracle::solve(&s, &Mat::eye(n)).unwrap_or(Mat::eye(n));
            f(false, "rotation-blocks-under-similarity", s.mul(&b).mul(&sinv), Some(sp.clone()), 10f64.powf(0.7) * 4.0)
        })
    });
    let real_separated = (vec(-20i32..=20, 1..=nmax.min(16)), any::<bool>()).prop_flat_map(move |(mut l, f32)| {
        l.sort();
        l.dedup();
        let n = l.len();
        let lv: Vec<f64> = l.iter().map(|x| *x as f64 * 0.25).collect();
        cond_mat(n, n, 0.5).prop_map(move |s| {
            let sinv = oracle::solve(&s, &Mat::eye(n)).unwrap_or(Mat::eye(n));
            f(f32, "real-well-separated", s.mul(&Mat::diag(&lv)).mul(&sinv), Some(lv.iter().map(|x| (*x, 0.0)).collect()), 10f64.powf(0.5) * 4.0)
        })
    });
    let badly_balanced = (1..=nmax.min(12)).prop_flat_map(|n| (unit_mat(n, n), vec(-12i32..=12, n))).prop_map(move |(m, e)| {
        let n = m.r;
        let a = Mat::from_fn(n, n, |i, j| m.at(i, j) * 2f64.powi(e[i] - e[j]));
        let span = (e.iter().max().unwrap() - e.iter().min().unwrap()) as i32;
        f(false, "badly-balanced", a, None, 2f64.powi(span))
    });
    prop_oneof![
        3 => random,
        1 => triangular,
        1 => companion,
        2 => normal,
        2 => rotation_sim,
        2 => real_separated,
        1 => badly_balanced,
    ]
    .boxed()
}

pub fn general_run<T: RealNumber, B: Build<T>>(case: &EvdCase, a: &Mat, eps: f64, ctx: &mut Ctx) -> Result<(), Fail> {
    let n = a.r;
    let nf = n as f64;
    let ma = <B as Build<T>>::build(a);
    let evd = match no_panic("evd(general)", || ma.evd(false))? {
        Ok(x) => x,
        Err(e) => return fail("evd-gen/err", format!("evd(false) failed: {}", e)),
    };
    let (d, e, v) = (fvec(&evd.d), fvec(&evd.e), to_mat(&evd.V));
    ensure!(d.len() == n && e.len() == n && (v.r, v.c) == (n, n), "evd-gen/shape", "shapes d {} e {} V {}x{}", d.len(), e.len(), v.r, v.c);
    ensure!(d.iter().chain(e.iter()).all(|x| x.is_finite()) && v.all_finite(), "evd-gen/non-finite", "non-finite output d={:?} e={:?}", d, e);
    let an = a.fro();
    let tol_l = C * eps * nf * an * case.sim_cond; // eigenvalue-level tolerance
    // conjugate pairs: every complex value has a partner
    let mut used = vec![false; n];
    for i in 0..n {
        if e[i] != 0.0 && !used[i] {
            // nearest unused value with an imaginary part of the opposite sign
            let mut best: Option<(usize, f64)> = None;
            for j in 0..n {
                if j != i && !used[j] && e[j] != 0.0 && (e[j] > 0.0) != (e[i] > 0.0) {
                    let dist = (d[j] - d[i]).abs().max((e[j] + e[i]).abs());
                    if best.map_or(true, |(_, b)| dist < b) {
                        best = Some((j, dist));
                    }
                }
            }
            match best {
                Some((j, dist)) if dist <= tol_l => {
                    used[i] = true;
                    used[j] = true;
                }
                _ => return fail("evd-gen/conjugate-pairs", format!("eigenvalue {}+{}i has no conjugate partner in d={:?} e={:?}", d[i], e[i], d, e)),
            }
        }
    }
    ctx.label_if(e.iter().any(|x| *x != 0.0), "has-complex-pair");
    // trace identities
    let tr: f64 = (0..n).map(|i| a.at(i, i)).sum();
    let a2 = a.mul(a);
    let tr2: f64 = (0..n).map(|i| a2.at(i, i)).sum();
    let sd: f64 = d.iter().sum();
    let sd2: f64 = (0..n).map(|i| d[i] * d[i] - e[i] * e[i]).sum();
    ctx.bound("evd-gen/trace", (sd - tr).abs(), C * eps * nf * an)?;
    ctx.bound("evd-gen/trace-of-square", (sd2 - tr2).abs(), C * eps * nf * an * an)?;
    // eigenvectors of real eigenvalues
    for j in 0..n {
        if e[j] == 0.0 {
            let vj = v.col(j);
            let nv = norm2(&vj);
            ensure!(nv > 0.0, "evd-gen/zero-eigenvector", "eigenvector {} for real eigenvalue {} is zero", j, d[j]);
            let av = a.mulv(&vj);
            let r: Vec<f64> = av.iter().zip(&vj).map(|(x, y)| x - d[j] * y).collect();
            ctx.bound("evd-gen/Av-dv", norm2(&r), C * eps * nf * an * nv * case.sim_cond)?;
        }
    }
    // known spectrum: compare as multisets
    if let Some(sp) = &case.spectrum {
        let mut taken = vec![false; n];
        let mut worst: f64 = 0.0;
        for &(re, im) in sp {
            let mut best = None;
            for j in 0..n {
                if !taken[j] {
                    let dist = ((d[j] - re).powi(2) + (e[j] - im).powi(2)).sqrt();
                    if best.map_or(true, |(_, bd)| dist < bd) {
                        best = Some((j, dist));
                    }
                }
            }
            let (j, dist) = best.unwrap();
            taken[j] = true;
            worst = worst.max(dist);
        }
        ctx.bound("evd-gen/spectrum-vs-construction", worst, C * eps * nf * an * case.sim_cond * case.sim_cond)?;
        // all real and well separated: the full identity
        if sp.iter().all(|x| x.1 == 0.0) {
            ensure!(e.iter().all(|x| *x == 0.0), "evd-gen/spurious-complex", "real well-separated spectrum reported with imaginary parts {:?}", e);
            let vd = Mat::from_fn(n, n, |i, j| v.at(i, j) * d[j]);
            ctx.bound("evd-gen/AV-VD", a.mul(&v).sub(&vd).fro(), C * eps * nf * an * v.fro() * case.sim_cond)?;
        }
    }
    Ok(())
}

fn check_general(case: &EvdCase, ctx: &mut Ctx) -> Result<(), Fail> {
    let (a, eps) = prep(case);
    ctx.label(format!("class:{}", case.class));
    ctx.label_if(case.f32, "f32");
    let sym = a.t() == a;
    ctx.nontrivial(a.r >= 3 && !sym);
    if case.f32 {
        general_run::<f32, DenseB>(case, &a, eps, ctx)
    } else {
        general_run::<f64, DenseB>(case, &a, eps, ctx)
    }
}

pub fn property() -> Property {
    Property {
        id: "C02",
        quick_mult: 80,
        rule: "symmetric inputs are Q diag(l) Q^T (dense / diagonal / two-block) with random, repeated, partly-zero or log-spread eigenvalues, rescaled by 10^[-12,12]; general inputs are random dense / integer, triangular, companion of chosen roots, normal Q B Q^T, rotation-scale blocks under a well-conditioned similarity, S diag(l) S^-1 with separated real l, and D A D^-1 with D powers of two. non-trivial = n >= 3 (symmetric), n >= 3 and A not symmetric (general); distinct = distinct serialised case",
        assumptions: vec![
            format!("bounds are C*eps*n*norm(A) with C = {}, multiplied by the condition number of the constructing similarity where one is used (eigenvalues of non-normal matrices are only that well determined)", C),
            "no ordering is asserted for the general solver (the statement claims none)".into(),
            "panics such as 'Too many iterations' count as violations".into(),
        ],
        subs: vec![sub("symmetric", (3000, 100000), strat_sym, check_sym), sub("general", (4000, 120000), strat_general, check_general)],
    }
}
