//! C05 — decision trees: consistent, greedy-optimal, complete within limits.
use crate::engine::*;
use crate::gen::*;
use proptest::collection::vec;
use proptest::prelude::*;
use serde::{Deserialize, Serialize};
use serde_json::Value;
use smartcore::linalg::naive::dense_matrix::DenseMatrix;
use smartcore::tree::decision_tree_classifier::{DecisionTreeClassifier, DecisionTreeClassifierParameters, SplitCriterion};
use smartcore::tree::decision_tree_regressor::{DecisionTreeRegressor, DecisionTreeRegressorParameters};

pub type Rows = Vec<Vec<f64>>;

#[derive(Clone, Debug, Serialize, Deserialize)]
pub struct TreeCase {
    pub class: String,
    pub x: Rows,
    pub y: Vec<f64>,
    pub classifier: bool,
    pub criterion: u8, // 0 gini 1 entropy 2 classification error
    pub max_depth: Option<u16>,
    pub min_samples_leaf: usize,
    pub min_samples_split: usize,
    pub queries: Rows,
    pub pow2: i32,
}

/// feature matrices: continuous with pairwise distinct values within each feature, or small integers
pub fn features(nmax: usize) -> BoxedStrategy<(String, Rows)> {
    (2usize..=nmax, 1usize..=6)
        .prop_flat_map(|(n, p)| {
            prop_oneof![
                // distinct within a feature: a random permutation of n distinct dyadic values per column
                3 => (vec(Just((0..n).collect::<Vec<usize>>()).prop_shuffle(), p), vec((pow2(-3, 3), small_int(-8, 8)), p)).prop_map(move |(perms, sc)| {
                    ("distinct".to_string(), (0..n).map(|i| (0..p).map(|j| perms[j][i] as f64 * sc[j].0 + sc[j].1).collect()).collect())
                }),
                3 => vec(vec(small_int(0, 3), p), n).prop_map(|x| ("small-integer".to_string(), x)),
                1 => (vec(vec(small_int(0, 3), p), n), any::<u16>()).prop_map(move |(mut x, s)| {
                    // one constant feature
                    let c = crate::gen::idx(s, p);
                    for r in x.iter_mut() {
                        r[c] = 2.0;
                    }
                    ("with-constant-feature".to_string(), x)
                }),
                1 => vec(vec(unit(), p), n).prop_map(|x| ("continuous".to_string(), x)),
                // zero-centred codes: even columns -1 / +1 flags, odd columns half-integers -1.5 .. 1.5, so that
                // split thresholds of exactly 0.0 occur (a boundary value for any tolerance-based comparison)
                2 => vec(vec(small_int(0, 3), p), n).prop_map(|x| {
                    ("zero-centred-codes".to_string(), x.iter().map(|r| r.iter().enumerate().map(|(j, v)| if j % 2 == 0 { if *v >= 2.0 { 1.0 } else { -1.0 } } else { *v - 1.5 }).collect()).collect())
                }),
            ]
        })
        .boxed()
}

pub fn class_labels(n: usize) -> BoxedStrategy<Vec<f64>> {
    (label_values([-7.0, -1.5, 0.0, 3.0, 42.0]), 2usize..=5, vec(any::<u16>(), n))
        .prop_map(|(vals, k, s)| {
            let mut y: Vec<f64> = s.iter().map(|x| vals[idx(*x, k)]).collect();
            // at least two classes
            if y.iter().all(|v| *v == y[0]) {
                let l = y.len();
                y[l - 1] = if y[0] == vals[0] { vals[1] } else { vals[0] };
            }
            y
        })
        .boxed()
}

fn strat_tree(t: Tier) -> BoxedStrategy<TreeCase> {
    (features(t.pick(100, 150)), any::<bool>(), 0u8..3, prop_oneof![2 => Just(None), 1 => (1u16..=8).prop_map(Some)], prop_oneof![2 => Just(1usize), 1 => 1usize..=5], prop_oneof![2 => Just(2usize), 2 => 0usize..=1, 2 => 0usize..=8], -8i32..=8)
        .prop_flat_map(|((class, x), classifier, criterion, max_depth, msl, mss, pow2)| {
            let n = x.len();
            let p = x[0].len();
            let y = if classifier { class_labels(n) } else { prop_oneof![vec(unit(), n), vec(small_int(-2, 2), n)].boxed() };
            let q = if class == "distinct" || class == "continuous" { vec(vec(unit().prop_map(|v| v * 16.0), p), 4).boxed() } else { vec(vec(small_int(-1, 4), p), 4).boxed() };
            (Just((class, x)), y, q).prop_map(move |((class, x), y, queries)| TreeCase { class, x, y, classifier, criterion, max_depth, min_samples_leaf: msl, min_samples_split: mss, queries, pow2 })
        })
        .boxed()
}

#[derive(Clone, Debug)]
pub struct PNode {
    pub output: f64, // class index for classifiers
    pub feature: usize,
    pub threshold: Option<f64>,
    pub t: Option<usize>,
    pub f: Option<usize>,
}

pub fn parse_nodes(v: &Value) -> Result<Vec<PNode>, String> {
    let arr = v["nodes"].as_array().ok_or("no nodes array")?;
    let mut out = vec![];
    for n in arr {
        out.push(PNode {
            output: n["output"].as_f64().ok_or("node without output")?,
            feature: n["split_feature"].as_u64().ok_or("node without split_feature")? as usize,
            threshold: n["split_value"].as_f64(),
            t: n["true_child"].as_u64().map(|x| x as usize),
            f: n["false_child"].as_u64().map(|x| x as usize),
        });
    }
    Ok(out)
}

fn crit(c: u8) -> SplitCriterion {
    match c {
        0 => SplitCriterion::Gini,
        1 => SplitCriterion::Entropy,
        _ => SplitCriterion::ClassificationError,
    }
}

pub fn fit_tree(case: &TreeCase, x: &Rows, queries: &Rows) -> Result<Result<(Value, Vec<f64>), String>, String> {
    let xm = DenseMatrix::from_2d_vec(x);
    let mut all = x.clone();
    all.extend(queries.iter().cloned());
    let qm = DenseMatrix::from_2d_vec(&all);
    catch(|| {
        if case.classifier {
            // builder calls in two orders (a setter that rebuilds from the defaults would lose earlier settings)
            let p = if x.len() % 2 == 0 {
                let mut p = DecisionTreeClassifierParameters::default().with_criterion(crit(case.criterion)).with_min_samples_leaf(case.min_samples_leaf).with_min_samples_split(case.min_samples_split);
                if let Some(d) = case.max_depth {
                    p = p.with_max_depth(d);
                }
                p
            } else {
                let mut p = DecisionTreeClassifierParameters::default();
                if let Some(d) = case.max_depth {
                    p = p.with_max_depth(d);
                }
                p.with_min_samples_split(case.min_samples_split).with_min_samples_leaf(case.min_samples_leaf).with_criterion(crit(case.criterion))
            };
            // inherent entry points, or (every other case) the generic traits of smartcore::api
            let via_trait = (x.len() / 2) % 2 == 1;
            let m: DecisionTreeClassifier<f64> = if via_trait { sup_fit(&xm, &case.y, p) } else { DecisionTreeClassifier::fit(&xm, &case.y, p) }.map_err(|e| format!("fit: {}", e))?;
            let v = serde_json::to_value(&m).map_err(|e| e.to_string())?;
            Ok((v, if via_trait { tr_predict(&m, &qm) } else { m.predict(&qm) }.map_err(|e| format!("predict: {}", e))?))
        } else {
            let p = if x.len() % 2 == 0 {
                let mut p = DecisionTreeRegressorParameters::default().with_min_samples_leaf(case.min_samples_leaf).with_min_samples_split(case.min_samples_split);
                if let Some(d) = case.max_depth {
                    p = p.with_max_depth(d);
                }
                p
            } else {
                let mut p = DecisionTreeRegressorParameters::default();
                if let Some(d) = case.max_depth {
                    p = p.with_max_depth(d);
                }
                p.with_min_samples_split(case.min_samples_split).with_min_samples_leaf(case.min_samples_leaf)
            };
            let via_trait = (x.len() / 2) % 2 == 1;
            let m: DecisionTreeRegressor<f64> = if via_trait { sup_fit(&xm, &case.y, p) } else { DecisionTreeRegressor::fit(&xm, &case.y, p) }.map_err(|e| format!("fit: {}", e))?;
            let v = serde_json::to_value(&m).map_err(|e| e.to_string())?;
            Ok((v, if via_trait { tr_predict(&m, &qm) } else { m.predict(&qm) }.map_err(|e| format!("predict: {}", e))?))
        }
    })
}

fn impurity(c: u8, counts: &[usize]) -> f64 {
    let n: usize = counts.iter().sum();
    if n == 0 {
        return 0.0;
    }
    let nf = n as f64;
    match c {
        0 => 1.0 - counts.iter().map(|k| (*k as f64 / nf).powi(2)).sum::<f64>(),
        1 => -counts.iter().filter(|k| **k > 0).map(|k| (*k as f64 / nf) * (*k as f64 / nf).log2()).sum::<f64>(),
        _ => 1.0 - counts.iter().map(|k| *k as f64 / nf).fold(0.0, f64::max),
    }
}

/// quality of splitting `rows` into (left,right): larger is better. Regression: reduction of squared error;
/// classification: decrease of weighted impurity.
fn split_quality(case: &TreeCase, yi: &[usize], k: usize, left: &[usize], right: &[usize]) -> f64 {
    if case.classifier {
        let cnt = |s: &[usize]| {
            let mut c = vec![0usize; k];
            for i in s {
                c[yi[*i]] += 1;
            }
            c
        };
        let (cl, cr) = (cnt(left), cnt(right));
        let all: Vec<usize> = cl.iter().zip(&cr).map(|(a, b)| a + b).collect();
        let n = (left.len() + right.len()) as f64;
        impurity(case.criterion, &all) - left.len() as f64 / n * impurity(case.criterion, &cl) - right.len() as f64 / n * impurity(case.criterion, &cr)
    } else {
        let sse = |s: &[usize]| {
            let m = s.iter().map(|i| case.y[*i]).sum::<f64>() / s.len() as f64;
            s.iter().map(|i| (case.y[*i] - m).powi(2)).sum::<f64>()
        };
        let all: Vec<usize> = left.iter().chain(right.iter()).cloned().collect();
        sse(&all) - sse(left) - sse(right)
    }
}

/// all admissible candidate partitions of `rows`: (feature, left, right)
fn candidates(x: &Rows, rows: &[usize], msl: usize) -> Vec<(usize, Vec<usize>, Vec<usize>)> {
    let p = x[0].len();
    let mut out = vec![];
    for f in 0..p {
        let mut vals: Vec<f64> = rows.iter().map(|i| x[*i][f]).collect();
        vals.sort_by(|a, b| a.partial_cmp(b).unwrap());
        vals.dedup();
        for w in vals.windows(2) {
            let left: Vec<usize> = rows.iter().cloned().filter(|i| x[*i][f] <= w[0]).collect();
            let right: Vec<usize> = rows.iter().cloned().filter(|i| x[*i][f] > w[0]).collect();
            if left.len() >= msl && right.len() >= msl {
                out.push((f, left, right));
            }
        }
    }
    out
}

pub fn check_tree(case: &TreeCase, ctx: &mut Ctx) -> Result<(), Fail> {
    let n = case.x.len();
    let p = case.x[0].len();
    let tag = if case.classifier { "tree_classifier" } else { "tree_regressor" };
    ctx.label(format!("class:{}", case.class));
    ctx.label(if case.classifier { format!("classifier:{:?}", crit(case.criterion)) } else { "regressor".to_string() });
    ctx.label_if(case.max_depth.is_some(), "max_depth");
    ctx.label_if(case.min_samples_leaf > 1, "min_samples_leaf>1");
    let (v, pred) = match fit_tree(case, &case.x, &case.queries) {
        Err(pn) => return fail(format!("{}/panic", tag), format!("panicked: {}", pn)),
        Ok(Err(e)) => return fail(format!("{}/err", tag), format!("valid input rejected: {}", e)),
        Ok(Ok(r)) => r,
    };
    let nodes = parse_nodes(&v).map_err(|e| Fail { sig: format!("{}/json", tag), msg: e })?;
    // class table
    let mut classes: Vec<f64> = case.y.clone();
    classes.sort_by(|a, b| a.partial_cmp(b).unwrap());
    classes.dedup();
    let k = classes.len();
    let yi: Vec<usize> = case.y.iter().map(|v| classes.iter().position(|c| c == v).unwrap()).collect();
    if case.classifier {
        let jc: Vec<f64> = serde_json::from_value(v["classes"].clone()).unwrap_or_default();
        ensure!(jc == classes, format!("{}/classes", tag), "class list {:?}, sorted distinct labels {:?}", jc, classes);
    }
    // ---- structure: node 0 is the root, children valid, every non-root node has exactly one parent
    ensure!(!nodes.is_empty(), format!("{}/structure", tag), "no nodes");
    let mut parent = vec![usize::MAX; nodes.len()];
    for (i, nd) in nodes.iter().enumerate() {
        ensure!(nd.t.is_some() == nd.f.is_some(), format!("{}/structure", tag), "node {} has exactly one child", i);
        if let (Some(t), Some(f)) = (nd.t, nd.f) {
            ensure!(nd.threshold.is_some() && nd.feature < p, format!("{}/structure", tag), "internal node {} has no threshold or an invalid feature {}", i, nd.feature);
            for c in [t, f] {
                ensure!(c < nodes.len() && c > i && parent[c] == usize::MAX && t != f, format!("{}/structure", tag), "node {}: invalid child {}", i, c);
                parent[c] = i;
            }
        }
    }
    ensure!((1..nodes.len()).all(|i| parent[i] != usize::MAX), format!("{}/structure", tag), "unreachable node");
    // ---- route every training row ourselves
    let route = |row: &[f64]| -> (usize, usize) {
        let (mut cur, mut depth) = (0usize, 0usize);
        while let (Some(t), Some(f)) = (nodes[cur].t, nodes[cur].f) {
            cur = if row[nodes[cur].feature] <= nodes[cur].threshold.unwrap() { t } else { f };
            depth += 1;
        }
        (cur, depth)
    };
    let mut members: Vec<Vec<usize>> = vec![vec![]; nodes.len()];
    let mut rows_at: Vec<Vec<usize>> = vec![vec![]; nodes.len()];
    for i in 0..n {
        let mut cur = 0usize;
        rows_at[0].push(i);
        while let (Some(t), Some(f)) = (nodes[cur].t, nodes[cur].f) {
            cur = if case.x[i][nodes[cur].feature] <= nodes[cur].threshold.unwrap() { t } else { f };
            rows_at[cur].push(i);
        }
        members[cur].push(i);
    }
    let internal = nodes.iter().filter(|nd| nd.t.is_some()).count();
    let repeated_conflict = case.class != "distinct" && case.class != "continuous";
    ctx.nontrivial(internal >= 3 && (!repeated_conflict || n >= 6));
    ctx.count("internal_nodes", internal as u64);
    let scale = case.y.iter().fold(0.0f64, |m, v| m.max(v.abs())).max(1e-300);
    // ---- predictions equal the routed leaf's output (training rows and fresh rows)
    let mut all = case.x.clone();
    all.extend(case.queries.iter().cloned());
    ensure!(pred.len() == all.len(), format!("{}/predict-len", tag), "{} predictions for {} rows", pred.len(), all.len());
    for (i, row) in all.iter().enumerate() {
        let (leaf, depth) = route(row);
        if let Some(md) = case.max_depth {
            ensure!(depth <= md as usize, format!("{}/depth", tag), "a path with {} splits exceeds max_depth = {}", depth, md);
        }
        let want = if case.classifier {
            let ci = nodes[leaf].output;
            ensure!(ci >= 0.0 && (ci as usize) < k, format!("{}/output-range", tag), "leaf {} output {} is not a class index", leaf, ci);
            classes[ci as usize]
        } else {
            nodes[leaf].output
        };
        ensure!(pred[i] == want, format!("{}/predict-vs-routing", tag), "row {:?}: predict = {}, the leaf reached by comparing feature <= threshold (node {}) outputs {}", row, pred[i], leaf, want);
    }
    // ---- leaves: output is a majority class / the mean of exactly the routed rows; leaf size limit
    for (l, nd) in nodes.iter().enumerate() {
        if nd.t.is_some() {
            continue;
        }
        let m = &members[l];
        if l != 0 {
            ensure!(m.len() >= case.min_samples_leaf, format!("{}/min-samples-leaf", tag), "leaf {} holds {} training rows, min_samples_leaf = {}", l, m.len(), case.min_samples_leaf);
        }
        if m.is_empty() {
            continue;
        }
        if case.classifier {
            let mut c = vec![0usize; k];
            for i in m {
                c[yi[*i]] += 1;
            }
            let mx = *c.iter().max().unwrap();
            ensure!(c[nd.output as usize] == mx, format!("{}/leaf-not-majority", tag), "leaf {} predicts class {} but its rows have class counts {:?} (classes {:?})", l, classes[nd.output as usize], c, classes);
        } else {
            let mean = m.iter().map(|i| case.y[*i]).sum::<f64>() / m.len() as f64;
            ctx.bound(&format!("{}/leaf-mean", tag), (nd.output - mean).abs(), 1e-9 * scale)?;
        }
    }
    // ---- greedy optimality at every internal node; completeness at every leaf
    let optimality_claimed = !case.classifier || (case.min_samples_leaf == 1 && case.class == "distinct");
    for (i, nd) in nodes.iter().enumerate() {
        let rows = &rows_at[i];
        if let (Some(_), Some(_)) = (nd.t, nd.f) {
            let thr = nd.threshold.unwrap();
            let left: Vec<usize> = rows.iter().cloned().filter(|r| case.x[*r][nd.feature] <= thr).collect();
            let right: Vec<usize> = rows.iter().cloned().filter(|r| case.x[*r][nd.feature] > thr).collect();
            ensure!(left.len() >= case.min_samples_leaf && right.len() >= case.min_samples_leaf && !left.is_empty() && !right.is_empty(), format!("{}/split-sides", tag), "node {}: split leaves {} / {} rows (min_samples_leaf {})", i, left.len(), right.len(), case.min_samples_leaf);
            if optimality_claimed {
                let cands = candidates(&case.x, rows, case.min_samples_leaf);
                let best = cands.iter().map(|(_, l, r)| split_quality(case, &yi, k, l, r)).fold(f64::NEG_INFINITY, f64::max);
                let got = split_quality(case, &yi, k, &left, &right);
                let tol = if case.classifier { 1e-9 } else { 1e-9 * scale * scale * rows.len() as f64 };
                ensure!(got >= best - tol, format!("{}/not-greedy-optimal", tag), "node {} ({} rows): chosen split feature {} <= {} gains {:e}, the best admissible split gains {:e}", i, rows.len(), nd.feature, thr, got, best);
            }
        } else if case.max_depth.is_none() && optimality_claimed {
            let pure = case.classifier && rows.iter().all(|r| yi[*r] == yi[rows[0]]);
            if rows.len() > case.min_samples_split && !pure {
                let cands = candidates(&case.x, rows, case.min_samples_leaf);
                ensure!(cands.is_empty(), format!("{}/incomplete", tag), "leaf {} holds {} rows (> min_samples_split = {}), is {}and has {} admissible splits, e.g. feature {}", i, rows.len(), case.min_samples_split, if case.classifier { "impure " } else { "" }, cands.len(), cands[0].0);
            }
        }
    }
    // ---- limits off and distinct values: training labels reproduced exactly
    if case.classifier && case.class == "distinct" && case.max_depth.is_none() && case.min_samples_leaf == 1 && case.min_samples_split <= 1 {
        ctx.label("limits-off: exact reproduction required");
        for i in 0..n {
            ensure!(pred[i] == case.y[i], format!("{}/not-reproduced", tag), "limits off, distinct feature values: training row {} has label {} but is predicted {}", i, case.y[i], pred[i]);
        }
    }
    // ---- determinism: a second fit gives the identical model
    let (v2, _) = match fit_tree(case, &case.x, &case.queries) {
        Ok(Ok(r)) => r,
        _ => return fail(format!("{}/refit", tag), "second fit failed".to_string()),
    };
    ensure!(v == v2, format!("{}/non-deterministic", tag), "two fits on the same data differ");
    // ---- metamorphic: features multiplied by a power of two
    let s = 2f64.powi(case.pow2);
    let xs: Rows = case.x.iter().map(|r| r.iter().map(|v| v * s).collect()).collect();
    let qs: Rows = case.queries.iter().map(|r| r.iter().map(|v| v * s).collect()).collect();
    let (v3, pred3) = match fit_tree(case, &xs, &qs) {
        Ok(Ok(r)) => r,
        _ => return fail(format!("{}/scaled-fit", tag), "fit on rescaled features failed".to_string()),
    };
    let nodes3 = parse_nodes(&v3).map_err(|e| Fail { sig: format!("{}/json", tag), msg: e })?;
    ensure!(nodes3.len() == nodes.len(), format!("{}/scale-variant", tag), "features x 2^{}: {} nodes instead of {}", case.pow2, nodes3.len(), nodes.len());
    for (a, b) in nodes.iter().zip(&nodes3) {
        let same = a.t == b.t && a.f == b.f && a.output == b.output && (a.t.is_none() || (a.feature == b.feature && a.threshold.map(|t| t * s) == b.threshold));
        ensure!(same, format!("{}/scale-variant", tag), "features x 2^{}: node {:?} became {:?}", case.pow2, a, b);
    }
    ensure!(pred3 == pred, format!("{}/scale-variant", tag), "features x 2^{}: predictions changed", case.pow2);
    Ok(())
}

pub fn property() -> Property {
    Property {
        id: "C05",
        quick_mult: 24,
        rule: "training sets of 2..100 (quick) / 150 (thorough) rows and 1..6 features: per-feature permutations of distinct dyadic values (the 'distinct' class), small integers 0..3 (heavy repeats), a constant feature, continuous, zero-centred codes (-1/+1 flags and half-integers: split thresholds of exactly 0); 2..5 classes with label values from {-7,-1.5,0,3,42} (as they are, rescaled by 2^[-70,40], or five consecutive floating-point numbers) or real / small-integer targets; all three criteria; max_depth None or 1..8, min_samples_leaf 1..5, min_samples_split 0..8; the fitted node array is read from the serde serialisation and every training row is routed by the harness. non-trivial = the fitted tree has >= 3 internal nodes; distinct = distinct serialised case",
        assumptions: vec![
            "greedy optimality and completeness are asserted for every regression tree, and for classification trees only when min_samples_leaf = 1 and feature values are pairwise distinct (as the statement says)".into(),
            "exact reproduction of the training labels is required when max_depth = None, min_samples_leaf = 1 and min_samples_split <= 1".into(),
            "ties between equally good splits and between majority classes are accepted".into(),
        ],
        subs: vec![sub("tree", (2500, 60000), strat_tree, check_tree)],
    }
}
