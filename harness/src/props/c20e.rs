//! C20 — estimators on identical data across the three backends (filled in below).
use crate::engine::*;

pub fn subs() -> Vec<Box<dyn DynSub>> {
    vec![]
}
