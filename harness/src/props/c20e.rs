//! C20 — deterministic estimators fitted on identical data on all three backends.
use super::c20::{NaB, NdB};
use crate::engine::*;
use crate::gen::*;
use crate::matops::*;
use crate::oracle::Mat;
use proptest::collection::vec;
use proptest::prelude::*;
use serde::{Deserialize, Serialize};
use smartcore::algorithm::neighbour::KNNAlgorithmName;
use smartcore::decomposition::pca::{PCAParameters, PCA};
use smartcore::ensemble::random_forest_classifier::{RandomForestClassifier, RandomForestClassifierParameters};
use smartcore::ensemble::random_forest_regressor::{RandomForestRegressor, RandomForestRegressorParameters};
use smartcore::linalg::{BaseMatrix, BaseVector};
use smartcore::linear::elastic_net::{ElasticNet, ElasticNetParameters};
use smartcore::linear::lasso::{Lasso, LassoParameters};
use smartcore::linear::linear_regression::LinearRegression;
use smartcore::linear::logistic_regression::{LogisticRegression, LogisticRegressionParameters};
use smartcore::linear::ridge_regression::{RidgeRegression, RidgeRegressionParameters};
use smartcore::metrics;
use smartcore::naive_bayes::bernoulli::{BernoulliNB, BernoulliNBParameters};
use smartcore::naive_bayes::categorical::{CategoricalNB, CategoricalNBParameters};
use smartcore::naive_bayes::gaussian::{GaussianNB, GaussianNBParameters};
use smartcore::naive_bayes::multinomial::{MultinomialNB, MultinomialNBParameters};
use smartcore::neighbors::knn_classifier::{KNNClassifier, KNNClassifierParameters};
use smartcore::neighbors::knn_regressor::{KNNRegressor, KNNRegressorParameters};
use smartcore::preprocessing::categorical::{OneHotEncoder, OneHotEncoderParams};
use smartcore::svm::svr::{SVRParameters, SVR};
use smartcore::svm::Kernels;
use smartcore::tree::decision_tree_classifier::{DecisionTreeClassifier, DecisionTreeClassifierParameters};
use smartcore::tree::decision_tree_regressor::{DecisionTreeRegressor, DecisionTreeRegressorParameters};

#[derive(Clone, Debug, Serialize, Deserialize)]
pub struct EstCase {
    pub x: Mat,
    pub xc: Mat, // small non-negative integer codes (counts / categories)
    pub y_reg: Vec<f64>,
    pub y_cls: Vec<f64>,
    pub q: Mat,
    pub seed: u64,
    pub param: f64,
}

fn strat_est(t: Tier) -> BoxedStrategy<EstCase> {
    (12usize..=t.pick(30, 50), 2usize..=4)
        .prop_flat_map(|(n, p)| (unit_mat(n, p), vec(vec(0u8..4, p), n), vec(unit(), p), vec(unit(), n), unit_mat(4, p), any::<u64>(), unit_pos()))
        .prop_map(|(z, codes, w, noise, q, seed, param)| {
            let (n, p) = (z.r, z.c);
            let x = Mat::from_fn(n, p, |i, j| z.at(i, j) * 2.0 + 0.25 * j as f64);
            let xc = Mat::from_fn(n, p, |i, j| codes[i][j] as f64);
            let lin: Vec<f64> = (0..n).map(|i| (0..p).map(|j| w[j] * z.at(i, j)).sum::<f64>()).collect();
            let y_reg: Vec<f64> = (0..n).map(|i| lin[i] * 2.0 + 0.5 * noise[i] + 1.0).collect();
            let mut order: Vec<usize> = (0..n).collect();
            order.sort_by(|a, b| lin[*a].partial_cmp(&lin[*b]).unwrap());
            let mut y_cls = vec![0.0; n];
            for (rank, i) in order.iter().enumerate() {
                y_cls[*i] = (rank * 3 / n) as f64;
            }
            for i in 0..n {
                if noise[i] > 0.7 {
                    y_cls[i] = (i % 3) as f64;
                }
            }
            EstCase { x, xc, y_reg, y_cls, q: q.scale(2.0), seed, param }
        })
        .boxed()
}

type Out = Vec<(&'static str, f64, Result<Vec<f64>, String>)>;

fn run<R>(f: impl FnOnce() -> Result<R, smartcore::error::Failed>, g: impl FnOnce(R) -> Result<Vec<f64>, smartcore::error::Failed>) -> Result<Vec<f64>, String> {
    match catch(|| f().and_then(g)) {
        Ok(Ok(v)) => Ok(v),
        Ok(Err(e)) => Err(format!("Err: {}", e)),
        Err(p) => Err(format!("panic: {}", p)),
    }
}

/// (name, relative tolerance, output) for every estimator on backend B
fn outputs<B: Build<f64>>(c: &EstCase) -> Out {
    let x = B::build(&c.x);
    let xc = B::build(&c.xc);
    let q = B::build(&c.q);
    let qc = B::build(&c.xc.slice(0, 4.min(c.xc.r), 0, c.xc.c));
    let yr = B::build_vec(&c.y_reg);
    let yc = B::build_vec(&c.y_cls);
    let v = |r: <B::M as BaseMatrix<f64>>::RowVector| vec_to_f64(&r);
    let alpha = 0.05 + c.param;
    let mut out: Out = vec![];
    out.push(("linear_regression", 1e-8, run(|| LinearRegression::fit(&x, &yr, Default::default()), |m| Ok([to_mat(m.coefficients()).d, vec![m.intercept()], v(m.predict(&q)?)].concat()))));
    out.push(("ridge", 1e-8, run(|| RidgeRegression::fit(&x, &yr, RidgeRegressionParameters::default().with_alpha(alpha)), |m| Ok([to_mat(m.coefficients()).d, vec![m.intercept()], v(m.predict(&q)?)].concat()))));
    out.push(("lasso", 1e-5, run(|| Lasso::fit(&x, &yr, LassoParameters::default().with_alpha(alpha * 0.1).with_tol(1e-8)), |m| Ok([to_mat(m.coefficients()).d, vec![m.intercept()], v(m.predict(&q)?)].concat()))));
    out.push(("elastic_net", 1e-5, run(|| ElasticNet::fit(&x, &yr, ElasticNetParameters::default().with_alpha(alpha * 0.1).with_tol(1e-8)), |m| Ok([to_mat(m.coefficients()).d, vec![m.intercept()], v(m.predict(&q)?)].concat()))));
    out.push(("logistic_regression", 1e-4, run(|| LogisticRegression::fit(&x, &yc, LogisticRegressionParameters::default().with_alpha(1.0)), |m| Ok([to_mat(m.coefficients()).d, to_mat(m.intercept()).d].concat()))));
    out.push(("gaussian_nb", 1e-9, run(|| GaussianNB::fit(&x, &yc, GaussianNBParameters::default()), |m| Ok([m.theta().concat(), m.var().concat(), v(m.predict(&q)?)].concat()))));
    out.push(("multinomial_nb", 1e-9, run(|| MultinomialNB::fit(&xc, &yc, MultinomialNBParameters::default().with_alpha(alpha)), |m| Ok([m.feature_log_prob().concat(), v(m.predict(&qc)?)].concat()))));
    out.push(("bernoulli_nb", 1e-9, run(|| BernoulliNB::fit(&x, &yc, BernoulliNBParameters::default().with_alpha(alpha).with_binarize(0.5)), |m| Ok([m.feature_log_prob().concat(), v(m.predict(&q)?)].concat()))));
    out.push(("categorical_nb", 1e-9, run(|| CategoricalNB::fit(&xc, &yc, CategoricalNBParameters::default().with_alpha(alpha)), |m| v_ok(v(m.predict(&qc)?)))));
    for (name, alg) in [("knn_classifier/cover_tree", KNNAlgorithmName::CoverTree), ("knn_classifier/linear", KNNAlgorithmName::LinearSearch)] {
        out.push((name, 0.0, run(|| KNNClassifier::fit(&x, &yc, KNNClassifierParameters::default().with_algorithm(alg.clone())), |m| v_ok(v(m.predict(&q)?)))));
    }
    for (name, alg) in [("knn_regressor/cover_tree", KNNAlgorithmName::CoverTree), ("knn_regressor/linear", KNNAlgorithmName::LinearSearch)] {
        out.push((name, 1e-12, run(|| KNNRegressor::fit(&x, &yr, KNNRegressorParameters::default().with_algorithm(alg.clone())), |m| v_ok(v(m.predict(&q)?)))));
    }
    out.push(("tree_classifier", 0.0, run(|| DecisionTreeClassifier::fit(&x, &yc, DecisionTreeClassifierParameters::default()), |m| v_ok([v(m.predict(&q)?), v(m.predict(&x)?)].concat()))));
    out.push(("tree_regressor", 1e-12, run(|| DecisionTreeRegressor::fit(&x, &yr, DecisionTreeRegressorParameters::default()), |m| v_ok([v(m.predict(&q)?), v(m.predict(&x)?)].concat()))));
    out.push(("forest_classifier", 0.0, run(|| RandomForestClassifier::fit(&x, &yc, RandomForestClassifierParameters::default().with_n_trees(6).with_seed(c.seed)), |m| v_ok(v(m.predict(&q)?)))));
    out.push(("forest_regressor", 1e-12, run(|| RandomForestRegressor::fit(&x, &yr, RandomForestRegressorParameters::default().with_n_trees(6).with_seed(c.seed)), |m| v_ok(v(m.predict(&q)?)))));
    out.push(("svr", 0.05, run(|| SVR::fit(&x, &yr, SVRParameters::default().with_c(1.0 + c.param).with_eps(0.1).with_kernel(Kernels::rbf(0.5))), |m| v_ok(v(m.predict(&q)?)))));
    out.push(("pca", 1e-8, run(|| PCA::fit(&x, PCAParameters::default().with_n_components(2)), |m| Ok(to_mat(&m.transform(&q)?).d.iter().map(|t| t.abs()).collect()))));
    out.push(("one_hot", 0.0, run(|| OneHotEncoder::fit(&xc, OneHotEncoderParams::from_cat_idx(&[0, c.xc.c - 1])), |m| Ok(to_mat(&m.transform(&xc)?).d))));
    // metrics on backend vectors
    let yb: Vec<f64> = c.y_cls.iter().map(|t| if *t > 0.5 { 1.0 } else { 0.0 }).collect();
    let pb: Vec<f64> = c.y_reg.iter().map(|t| if *t > 1.0 { 1.0 } else { 0.0 }).collect();
    let (ybv, pbv) = (B::build_vec(&yb), B::build_vec(&pb));
    let scores = B::build_vec(&c.y_reg);
    let metr = catch(|| {
        vec![
            metrics::accuracy(&ybv, &pbv),
            metrics::precision(&ybv, &pbv),
            metrics::recall(&ybv, &pbv),
            metrics::f1(&ybv, &pbv, 1.0),
            metrics::roc_auc_score(&ybv, &scores),
            metrics::mean_squared_error(&yr, &scores),
            metrics::mean_absolute_error(&yr, &B::build_vec(&c.y_cls)),
            metrics::r2(&yr, &B::build_vec(&c.y_cls)),
            metrics::homogeneity_score(&yc, &ybv),
            metrics::completeness_score(&yc, &ybv),
            metrics::v_measure_score(&yc, &ybv),
        ]
    });
    out.push(("metrics", 1e-10, metr.map_err(|p| format!("panic: {}", p))));
    out
}

fn v_ok(v: Vec<f64>) -> Result<Vec<f64>, smartcore::error::Failed> {
    Ok(v)
}

fn check_est(c: &EstCase, ctx: &mut Ctx) -> Result<(), Fail> {
    ctx.nontrivial(true);
    let dense = outputs::<DenseB>(c);
    for (bname, other) in [("ndarray", outputs::<NdB>(c)), ("nalgebra", outputs::<NaB>(c))] {
        for ((name, tol, d), (_, _, o)) in dense.iter().zip(other.iter()) {
            let tag = format!("{}/{}", bname, name);
            match (d, o) {
                (Ok(dv), Ok(ov)) => {
                    ensure!(dv.len() == ov.len(), format!("{}/differs-from-dense", tag), "output length {} vs dense {}", ov.len(), dv.len());
                    let sc = dv.iter().fold(0.0f64, |m, x| m.max(x.abs())).max(1.0);
                    for i in 0..dv.len() {
                        let both_nan = dv[i].is_nan() && ov[i].is_nan();
                        ensure!(both_nan || (dv[i] - ov[i]).abs() <= tol * sc, format!("{}/differs-from-dense", tag), "{} output {}: {:e} on {}, {:e} on the dense matrix", name, i, ov[i], bname, dv[i]);
                    }
                }
                (Err(de), Err(oe)) => {
                    // same outcome class on both backends (degenerate data, e.g. a constant column): only the kind must agree
                    ensure!(de.starts_with("Err") == oe.starts_with("Err"), format!("{}/outcome-differs-from-dense", tag), "{}: dense {}, {} {}", name, de, bname, oe);
                    ctx.count("both_backends_reject", 1);
                }
                (Ok(_), Err(e)) => return fail(format!("{}/fails-where-dense-works", tag), format!("{} on {}: {}", name, bname, e)),
                (Err(e), Ok(_)) => return fail(format!("{}/works-where-dense-fails", tag), format!("{} failed on the dense matrix only: {}", name, e)),
            }
        }
    }
    Ok(())
}

pub fn subs() -> Vec<Box<dyn DynSub>> {
    vec![sub("estimators", (300, 10000), strat_est, check_est)]
}
