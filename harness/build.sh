#!/bin/sh
# build helper: only show errors of the harness
cd /verif/harness && cargo build 2>&1 | awk '/^error/{p=1} /^warning/{p=0} p' | head -${1:-80}
